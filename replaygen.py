"""Generates Go test code that replays operator machine contracts against the real operators.

For one operator descriptor (emitted by `rovc gen` as replay_descs) the generated test
  * instantiates the real operator (type parameters := int) with deterministic stub callbacks,
  * drives it with every input script up to a bound (values over a small alphabet, ending in
    completion, error or unsubscription) through a synchronous scripted source,
  * runs the contract machine (guards / emits / ghost updates translated to Go by rovc) on the same
    script as the executable reference,
  * compares the recorded trace (kind, context identity, value) with the reference, re-subscribes the same
    pipeline (C12) and counts the releases of the source (C03/C14).
A mismatch prints a line `REPLAY-FAIL <op> ...` with the concrete script: a failing input for the real code.
"""
import json

HEADER = r'''
package ro

import (
	"context"
	"errors"
	"fmt"
	"testing"
)

type rvKey struct{}

func rvID(ctx context.Context) string {
	if ctx == nil {
		return "<nil>"
	}
	v, _ := ctx.Value(rvKey{}).(string)
	if v == "" {
		return "<fresh>"
	}
	return v
}

func rvWithID(parent context.Context, id string) context.Context {
	if parent == nil {
		parent = context.Background()
	}
	return context.WithValue(parent, rvKey{}, id)
}

type rvEv struct {
	Kind string
	Ctx  string
	Val  any
}

func (e rvEv) String() string { return fmt.Sprintf("%s(%s,%v)", e.Kind, e.Ctx, e.Val) }

type rvWild struct{}

var wild = rvWild{}

type rvFields struct{ fs []any }

func fieldsPat(fs ...any) any { return rvFields{fs} }

var rvErrs = []error{errors.New("rv-err-0"), errors.New("rv-err-1"), errors.New("rv-err-2"), errors.New("rv-err-3")}
var rvSrcErr = errors.New("rv-source-error")

func asInt(x any) int64 {
	if x == nil {
		return 0 // the zero value of a type parameter, written nil in the contracts
	}
	switch v := x.(type) {
	case int:
		return int64(v)
	case int64:
		return v
	case int32:
		return int64(v)
	case uint64:
		return int64(v)
	case uint32:
		return int64(v)
	case Kind:
		return int64(v)
	}
	panic(fmt.Sprintf("rv: not an int: %T %v", x, x))
}

func asBool(x any) bool {
	b, ok := x.(bool)
	if !ok {
		panic(fmt.Sprintf("rv: not a bool: %T %v", x, x))
	}
	return b
}

func rvNorm(x any) any {
	switch v := x.(type) {
	case int:
		return int64(v)
	case int32:
		return int64(v)
	case uint64:
		return int64(v)
	case context.Context:
		return rvID(v)
	}
	return x
}

// same compares two values of the abstract machine (ints normalised, contexts by identity string).
func same(a, b any) bool {
	if _, ok := a.(rvWild); ok {
		return true
	}
	if _, ok := b.(rvWild); ok {
		return true
	}
	if f, ok := b.(rvFields); ok {
		a, b = b, a
		_ = f
	}
	if f, ok := a.(rvFields); ok {
		// b is a Notification[int]
		n, ok := b.(Notification[int])
		if !ok {
			return false
		}
		parts := []any{int64(n.Kind), any(n.Value), any(n.Err)}
		for i, p := range f.fs {
			if i < len(parts) && !same(p, parts[i]) {
				return false
			}
		}
		return true
	}
	a, b = rvNorm(a), rvNorm(b)
	if a == nil || b == nil {
		if a == nil && b == nil {
			return true
		}
		// nil stands for the zero value of a type parameter in the contracts
		if v, ok := a.(int64); ok && v == 0 {
			return true
		}
		if v, ok := b.(int64); ok && v == 0 {
			return true
		}
		return false
	}
	defer func() { recover() }()
	return a == b
}

func rvHash(name string, args ...any) int64 {
	h := int64(17)
	for _, c := range name {
		h = (h*31 + int64(c)) % 1000003
	}
	for _, a := range args {
		switch v := rvNorm(a).(type) {
		case int64:
			h = (h*31 + v + 7) % 1000003
		case string:
			// contexts do not influence the results: the stubs are functions of the data only
		case bool:
			if v {
				h = (h*31 + 1) % 1000003
			}
		}
	}
	if h < 0 {
		h = -h
	}
	return h
}

func rvTraceEq(a, b []rvEv) bool {
	if len(a) != len(b) {
		return false
	}
	for i := range a {
		if a[i].Kind != b[i].Kind || a[i].Ctx != b[i].Ctx || !same(a[i].Val, b[i].Val) {
			return false
		}
	}
	return true
}

type rvScript struct {
	Vals   []int
	Ending string // complete | error | none
}

func rvScripts(maxLen int) []rvScript {
	var out []rvScript
	var rec func(prefix []int)
	rec = func(prefix []int) {
		for _, e := range []string{"complete", "error", "none"} {
			out = append(out, rvScript{append([]int{}, prefix...), e})
		}
		if len(prefix) == maxLen {
			return
		}
		for _, v := range []int{0, 1, 2} {
			rec(append(prefix, v))
		}
	}
	rec(nil)
	return out
}

// rvRun drives obs-producing function mk with the script and returns the trace seen by the final observer,
// the trace of a second subscription of the same pipeline, and how often each source subscription was released.
func rvRun[R any](mk func(src Observable[int]) Observable[R], sc rvScript) (first, second []rvEv, subs, releases int, escaped any) {
	src := NewUnsafeObservableWithContext(func(ctx context.Context, d Observer[int]) Teardown {
		subs++
		for i, v := range sc.Vals {
			d.NextWithContext(rvWithID(ctx, fmt.Sprintf("%s/i%d", rvID(ctx), i)), v)
		}
		switch sc.Ending {
		case "complete":
			d.CompleteWithContext(rvWithID(ctx, rvID(ctx)+"/end"))
		case "error":
			d.ErrorWithContext(rvWithID(ctx, rvID(ctx)+"/end"), rvSrcErr)
		}
		return func() { releases++ }
	})
	defer func() {
		if r := recover(); r != nil {
			escaped = r
		}
	}()
	obs := mk(src)
	run := func() []rvEv {
		var got []rvEv
		sub := obs.SubscribeWithContext(rvWithID(context.Background(), "sub"), NewObserverWithContext(
			func(ctx context.Context, v R) { got = append(got, rvEv{"Next", rvID(ctx), any(v)}) },
			func(ctx context.Context, err error) { got = append(got, rvEv{"Error", rvID(ctx), err}) },
			func(ctx context.Context) { got = append(got, rvEv{"Complete", rvID(ctx), nil}) },
		))
		sub.Unsubscribe()
		return got
	}
	first = run()
	second = run()
	return
}
'''


def go_zero(kind):
    return {"int": "0", "value": "0", "bool": "false", "ctx": "nil", "error": "nil"}.get(kind, "nil")


def gen_stub(p):
    """Go code for uf_<name> (on abstract values) and the real stub passed to the operator."""
    name = p["name"]
    pk, rk = p.get("params") or [], p.get("results") or []
    lines = []
    # abstract function: uf_name(args ...any) []any ; contexts are identity strings
    lines.append("func uf_%s(args ...any) []any {" % name)
    lines.append("\th := rvHash(%s, args...)" % json.dumps(name))
    lines.append("\tctxID := \"\"")
    lines.append("\tfor _, a := range args {\n\t\tif s, ok := rvNorm(a).(string); ok && ctxID == \"\" {\n\t\t\tctxID = s\n\t\t}\n\t}")
    lines.append("\t_ = ctxID\n\t_ = h")
    lines.append("\tvar out []any")
    for i, k in enumerate(rk):
        if k == "ctx":
            lines.append("\tout = append(out, fmt.Sprintf(\"%%s/%s%%d\", ctxID, h%%3))" % name)
        elif k in ("int", "value"):
            lines.append("\tout = append(out, int64((h+%d)%%7))" % i)
        elif k == "bool":
            lines.append("\tout = append(out, (h+%d)%%2 == 0)" % i)
        elif k == "error":
            if not pk:
                lines.append("\tout = append(out, any(rvErrs[h%4]))")
            else:
                lines.append("\tif h%4 == 0 {\n\t\tout = append(out, any(rvErrs[h%4]))\n\t} else {\n\t\tout = append(out, nil)\n\t}")
        else:
            return None, None
    lines.append("\treturn out\n}")
    return "\n".join(lines), True


def real_stub(p):
    name = p["name"]
    pk, rk = p.get("params") or [], p.get("results") or []
    sig = p["go"]
    # parse parameter list from kinds; we rebuild a func literal with named params a0..an using the Go type string
    # Go type string looks like: func(ctx context.Context, item int, index int64) (context.Context, int)
    head = sig[sig.index("(") + 1:]
    depth, i = 1, 0
    while depth:
        if head[i] == "(":
            depth += 1
        elif head[i] == ")":
            depth -= 1
        i += 1
    params_txt = head[:i - 1]
    rest = head[i:].strip()
    ptypes = []
    for part in [x.strip() for x in params_txt.split(",") if x.strip()]:
        bits = part.split(" ")
        ptypes.append(bits[-1] if len(bits) > 1 else bits[0])
    args = ["a%d %s" % (j, t) for j, t in enumerate(ptypes)]
    call_args = []
    first_ctx = None
    for j, k in enumerate(pk):
        if k == "ctx":
            call_args.append("rvID(a%d)" % j)
            if first_ctx is None:
                first_ctx = "a%d" % j
        elif k in ("int", "value"):
            call_args.append("int64(a%d)" % j)
        elif k == "bool":
            call_args.append("a%d" % j)
        elif k == "error":
            call_args.append("any(a%d)" % j)
        else:
            return None
    body = ["\tr := uf_%s(%s)" % (name, ", ".join(call_args)), "\t_ = r"]
    rets = []
    rtypes = []
    if rest:
        rt = rest.strip()
        if rt.startswith("("):
            rt = rt[1:-1]
        rtypes = [x.strip().split(" ")[-1] for x in rt.split(",") if x.strip()]
    for j, k in enumerate(rk):
        if k == "ctx":
            rets.append("rvWithID(%s, r[%d].(string))" % (first_ctx or "nil", j))
        elif k in ("int", "value"):
            rets.append("%s(asInt(r[%d]))" % (rtypes[j], j))
        elif k == "bool":
            rets.append("asBool(r[%d])" % j)
        elif k == "error":
            body.append("\tvar e%d error\n\tif r[%d] != nil {\n\t\te%d = r[%d].(error)\n\t}" % (j, j, j, j))
            rets.append("e%d" % j)
        else:
            return None
    if rets:
        body.append("\treturn " + ", ".join(rets))
    return "func(%s) %s {\n%s\n}" % (", ".join(args), rest, "\n".join(body))


def gen_operator_test(d, max_len=3):
    """Returns Go source (without header) for one operator descriptor, or None when it cannot be replayed."""
    if not d.get("interpretable"):
        return None
    op = d["op"]
    fn = "TestRovcReplay_" + op
    out = []
    stubs = {}
    for p in d["params"] or []:
        if p["kind"] == "func":
            abstract, ok = gen_stub(p)
            rs = real_stub(p)
            if abstract is None or rs is None:
                return None
            out.append(abstract.replace("func uf_%s(" % p["name"], "func uf_%s_%s(" % (op, p["name"])))
            stubs[p["name"]] = rs.replace("uf_%s(" % p["name"], "uf_%s_%s(" % (op, p["name"]))

    def fix(expr):
        for name in stubs:
            expr = expr.replace("uf_%s(" % name, "uf_%s_%s(" % (op, name))
        return expr

    # parameter value choices
    choices = []
    for p in d["params"] or []:
        k = p["kind"]
        if k == "int":
            choices.append((p, ["0", "1", "2", "3"]))
        elif k == "value":
            choices.append((p, ["5", "1"]))
        elif k == "ctx":
            choices.append((p, ["rvWithID(context.Background(), \"supplied\")"]))
        elif k == "func":
            choices.append((p, [stubs[p["name"]]]))
        else:
            return None
    tparams = "[" + ", ".join(["int"] * d["type_params"]) + "]" if d["type_params"] else ""
    # the machine
    m = []
    m.append("func rvMachine_%s(%s sc rvScript) []rvEv {" % (op, "".join("o_%s any, " % p["name"] for p, _ in choices)))
    for p, _ in choices:
        m.append("\t_ = o_%s" % p["name"])
    for g, init in zip(d["ghosts"] or [], d["ghost_init"] or []):
        m.append("\tvar g_%s any = %s" % (g["Name"], fix(init)))
        m.append("\t_ = g_%s" % g["Name"])
    m.append("\tvar out []rvEv\n\tclosed := false")
    m.append("\temit := func(kind string, args ...any) {\n\t\tif closed {\n\t\t\treturn\n\t\t}\n\t\tev := rvEv{Kind: kind}\n\t\tif len(args) > 0 {\n\t\t\tif s, ok := rvNorm(args[0]).(string); ok {\n\t\t\t\tev.Ctx = s\n\t\t\t} else if args[0] == nil {\n\t\t\t\tev.Ctx = \"<nil>\"\n\t\t\t}\n\t\t}\n\t\tif len(args) > 1 {\n\t\t\tev.Val = args[1]\n\t\t}\n\t\tout = append(out, ev)\n\t\tif kind != \"Next\" {\n\t\t\tclosed = true\n\t\t}\n\t}")

    def role_block(role, bind):
        b = []
        cases = [c for c in d["cases"] if c["role"] == role]
        b.append("\t\tmatched := false")
        for c in cases:
            b.append("\t\tif !matched && !closed {")
            for pname, src in zip(c["params"], bind):
                b.append("\t\t\tvar p_%s any = %s\n\t\t\t_ = p_%s" % (pname, src, pname))
            b.append("\t\t\tif asBool(%s) {" % fix(c["guard"]))
            b.append("\t\t\t\tmatched = true")
            # updates are simultaneous: evaluate first
            for i, (g, e) in enumerate(c.get("updates") or []):
                b.append("\t\t\t\tn%d := any(%s)" % (i, fix(e)))
            for ev in c.get("emits") or []:
                b.append("\t\t\t\temit(%s)" % ", ".join([json.dumps(ev[0])] + [fix(a) for a in ev[1:]]))
            for i, (g, e) in enumerate(c.get("updates") or []):
                b.append("\t\t\t\tg_%s = n%d" % (g, i))
            b.append("\t\t\t}\n\t\t}")
        b.append("\t\tif !matched && !closed {\n\t\t\tout = append(out, rvEv{Kind: \"NO-CASE-%s\"})\n\t\t\tclosed = true\n\t\t}" % role)
        return "\n".join(b)

    m.append("\tfor i, v := range sc.Vals {\n\t\t_ = i")
    m.append(role_block("next", ["fmt.Sprintf(\"sub/i%d\", i)", "int64(v)"]))
    m.append("\t}")
    m.append("\tswitch sc.Ending {\n\tcase \"complete\":\n\t\t{")
    m.append(role_block("complete", ["\"sub/end\""]))
    m.append("\t\t}\n\tcase \"error\":\n\t\t{")
    m.append(role_block("error", ["\"sub/end\"", "any(error(rvSrcErr))"]))
    m.append("\t\t}\n\t}")
    m.append("\treturn out\n}")
    out.append("\n".join(m))
    # the test
    t = []
    t.append("func %s(t *testing.T) {" % fn)
    t.append("\tfails := 0")
    t.append("\tfor rvOnce := 0; rvOnce < 1; rvOnce++ {")
    indent = "\t\t"
    names = []
    for idx, (p, vals) in enumerate(choices):
        t.append("%sfor _, c%d := range []%s{%s} {" % (indent, idx, "any" if p["kind"] in ("int", "value") else p["go"], ", ".join(vals)))
        indent += "\t"
        names.append((p, "c%d" % idx))
    # requires filter + build
    abstract_args = []
    real_args = []
    for p, c in names:
        if p["kind"] == "int":
            abstract_args.append("int64(%s.(int))" % c)
            real_args.append("%s(%s.(int))" % (p["go"], c))
        elif p["kind"] == "value":
            abstract_args.append("int64(%s.(int))" % c)
            real_args.append("%s.(int)" % c)
        elif p["kind"] == "ctx":
            abstract_args.append("rvID(%s)" % c)
            real_args.append(c)
        else:
            abstract_args.append("nil")
            real_args.append(c)
    for (p, c), a in zip(names, abstract_args):
        t.append("%svar o_%s any = %s\n%s_ = o_%s" % (indent, p["name"], a, indent, p["name"]))
    for r in d.get("requires") or []:
        t.append("%sif !asBool(%s) {\n%s\tcontinue\n%s}" % (indent, fix(r), indent, indent))
    t.append("%svar build func(Observable[int]) Observable[%s]" % (indent, d.get("out_elem") or "int"))
    t.append("%sfunc() {\n%s\tdefer func() { recover() }() // a constructor that rejects its arguments is not a replay failure\n%s\tbuild = %s%s(%s)\n%s}()" % (indent, indent, indent, op, tparams, ", ".join(real_args), indent))
    t.append("%sif build == nil {\n%s\tcontinue\n%s}" % (indent, indent, indent))
    t.append("%sfor _, sc := range rvScripts(%d) {" % (indent, max_len))
    i2 = indent + "\t"
    t.append("%swant := rvMachine_%s(%ssc)" % (i2, op, "".join("o_%s, " % p["name"] for p, _ in names)))
    t.append("%smk := build" % i2)
    t.append("%sfirst, second, subs, releases, escaped := rvRun(mk, sc)" % i2)
    t.append("%sdesc := fmt.Sprintf(\"%s(%s) script=%%v ending=%%s\", %ssc.Vals, sc.Ending)" % (i2, op, ", ".join(["%v"] * len(names)), "".join("o_%s, " % p["name"] for p, _ in names)))
    t.append("%sif escaped != nil {\n%s\tfails++\n%s\tfmt.Printf(\"REPLAY-FAIL %s panic escaped: %%v [%%s]\\n\", escaped, desc)\n%s\tcontinue\n%s}" % (i2, i2, i2, op, i2, i2))
    t.append("%sif !rvTraceEq(first, want) {\n%s\tfails++\n%s\tfmt.Printf(\"REPLAY-FAIL %s trace: got %%v want %%v [%%s]\\n\", first, want, desc)\n%s}" % (i2, i2, i2, op, i2))
    t.append("%sif !rvTraceEq(second, first) {\n%s\tfails++\n%s\tfmt.Printf(\"REPLAY-FAIL %s second subscription differs: first %%v second %%v [%%s]\\n\", first, second, desc)\n%s}" % (i2, i2, i2, op, i2))
    t.append("%sif subs != releases {\n%s\tfails++\n%s\tfmt.Printf(\"REPLAY-FAIL %s source subscribed %%d times but released %%d times [%%s]\\n\", subs, releases, desc)\n%s}" % (i2, i2, i2, op, i2))
    t.append("%sif fails > 5 {\n%s\tt.Fatalf(\"too many failures\")\n%s}" % (i2, i2, i2))
    t.append("%s}" % indent)
    for idx in range(len(choices)):
        indent = indent[:-1]
        t.append("%s}" % indent)
    t.append("\t}")
    t.append("\tif fails > 0 {\n\t\tt.Fatalf(\"%%d replay failures\", fails)\n\t} else {\n\t\tfmt.Println(\"REPLAY-OK %s\")\n\t}\n}" % op)
    out.append("\n".join(t))
    return "\n\n".join(out)


def gen_file(descs, max_len=3):
    parts = [HEADER]
    done = []
    for d in descs:
        src = gen_operator_test(d, max_len)
        if src:
            parts.append(src)
            done.append(d["op"])
    return "\n".join(parts), done
