package main

// PN: the generated instrumented PipeN family of ee/plugins/prometheus. Every PipeN builds two compositions of the same
// operators: the plain one and one with a processing-time observer after each operator. The contract of the family
// (C19: one observation per value leaving each operator, attributed to that operator) is, per function:
//   - the k-th observer (source order) is labelled with operator index k and described by Arguments[k];
//   - the instrumented composition is operator1, observer0, operator2, observer1, ... in this order;
//   - the plain composition is operator1 ... operatorN in this order;
//   - both go to checkLicenseAndPipe with the source.
// Derived from the function's own parameter list; no annotation.

import (
	"go/token"
	"go/types"
	"os"
	"fmt"
	"go/constant"
	"regexp"
	"strings"

	"golang.org/x/tools/go/ssa"
)

var pipeNRe = regexp.MustCompile(`^Pipe([0-9]+)$`)

func constIntOf(v ssa.Value) (int64, bool) {
	c, ok := v.(*ssa.Const)
	if !ok || c.Value == nil || c.Value.Kind() != constant.Int {
		return 0, false
	}
	n, ok := constant.Int64Val(c.Value)
	return n, ok
}

// argumentIndexOf: v is a load of the field `field` of a local copy of pipeDescription.Arguments[k]; returns k.
func argumentIndexOf(v ssa.Value, field string) (int64, bool) {
	ld, ok := v.(*ssa.UnOp)
	if !ok {
		return 0, false
	}
	fa, ok := ld.X.(*ssa.FieldAddr)
	if !ok {
		return 0, false
	}
	st := derefType(fa.X.Type())
	if s, ok := isStruct(st); !ok || s.Field(fa.Field).Name() != field {
		return 0, false
	}
	al, ok := fa.X.(*ssa.Alloc)
	if !ok {
		return 0, false
	}
	// the single store into the local: *al = *(&Arguments[k])
	for _, r := range *al.Referrers() {
		if s, ok := r.(*ssa.Store); ok && s.Addr == al {
			if l2, ok := s.Val.(*ssa.UnOp); ok {
				if ia, ok := l2.X.(*ssa.IndexAddr); ok {
					return constIntOf(ia.Index)
				}
			}
		}
	}
	return 0, false
}

func (pc *pCtx) pnInstrumentedPipes(only string) {
	props := []string{"C19"}
	for p := range pc.kc.w.ByPath {
		if !strings.HasSuffix(p, "ee/plugins/prometheus") {
			continue
		}
		fns := pc.kc.w.allFuncs(p)
		for _, k := range sortedKeys(fns) {
			m := pipeNRe.FindStringSubmatch(k)
			fn := fns[k]
			if m == nil || fn.Blocks == nil || fn.Parent() != nil {
				continue
			}
			name := strings.TrimPrefix(p, roPath+"/") + "." + k
			if only != "" && !strings.Contains(name, only) {
				continue
			}
			var ops []*ssa.Parameter
			for _, prm := range fn.Params {
				if strings.HasPrefix(prm.Name(), "operator") {
					ops = append(ops, prm)
				}
			}
			var observers []*ssa.Call
			var plain, instr, lic *ssa.Call
			for _, b := range fn.Blocks {
				for _, ins := range b.Instrs {
					c, ok := ins.(*ssa.Call)
					if !ok {
						continue
					}
					switch cn := staticCalleeName(c.Common()); {
					case cn == "observeOperatorProcessingTime":
						observers = append(observers, c)
					case cn == "checkLicenseAndPipe":
						lic = c
					}
				}
			}
			if lic != nil && len(lic.Call.Args) == 4 {
				plain, _ = lic.Call.Args[2].(*ssa.Call)
				instr, _ = lic.Call.Args[3].(*ssa.Call)
			}
			// the pipeline is the error observable exactly when the description of the call site could not be read:
			// the guard in front of `return ro.Throw(err), nil` is `err != nil`
			guardOK, guardNote := false, "no guard on the error of GetFunctionDescription found"
			for _, b := range fn.Blocks {
				if len(b.Instrs) == 0 {
					continue
				}
				iff, ok := b.Instrs[len(b.Instrs)-1].(*ssa.If)
				if !ok {
					continue
				}
				bo, ok := iff.Cond.(*ssa.BinOp)
				if !ok {
					continue
				}
				var other ssa.Value
				if ex, ok := bo.X.(*ssa.Extract); ok && ex.Index == 1 {
					other = bo.Y
				} else if ex, ok := bo.Y.(*ssa.Extract); ok && ex.Index == 1 {
					other = bo.X
				} else {
					continue
				}
				if c, ok := other.(*ssa.Const); !ok || !c.IsNil() {
					continue
				}
				throws := func(blk *ssa.BasicBlock) bool {
					for _, ins := range blk.Instrs {
						if c, ok := ins.(*ssa.Call); ok && strings.HasPrefix(staticCalleeName(c.Common()), "Throw") {
							return true
						}
					}
					return false
				}
				onErr, onOK := b.Succs[0], b.Succs[1]
				if bo.Op == token.EQL {
					onErr, onOK = onOK, onErr
				}
				if throws(onErr) && !throws(onOK) {
					guardOK, guardNote = true, ""
				} else {
					guardOK, guardNote = false, "the branch taken when the description was read returns the error observable (or the other one does not)"
				}
			}
			pc.add(props, "PN/"+name+"/fails-exactly-when-the-description-cannot-be-read", "the instrumented pipe is ro.Throw(err) exactly when GetFunctionDescription failed", guardOK, guardNote, pc.pos(fn.Pos()))
			pos := pc.pos(fn.Pos())
			okShape := lic != nil && plain != nil && instr != nil && len(observers) == len(ops) && len(lic.Call.Args) == 4
			pc.add(props, "PN/"+name+"/one-observer-per-operator", "the function builds a plain and an instrumented composition with exactly one processing-time observer per operator", okShape,
				fmt.Sprintf("%d operators, %d observers", len(ops), len(observers)), pos)
			if !okShape {
				continue
			}
			for i, oc := range observers {
				a := oc.Call.Args
				idx, okI := constIntOf(a[3])
				pc.add(props, fmt.Sprintf("PN/%s/observer#%d-is-labelled-with-its-operator-index", name, i), "the k-th observer reports under operator_index k", okI && idx == int64(i),
					fmt.Sprintf("observer %d is labelled %d", i, idx), pc.pos(oc.Pos()))
				n1, ok1 := argumentIndexOf(a[1], "Name")
				n2, ok2 := argumentIndexOf(a[2], "Pos")
				pc.add(props, fmt.Sprintf("PN/%s/observer#%d-describes-its-operator", name, i), "the k-th observer carries the name and position of argument k", ok1 && ok2 && n1 == int64(i) && n2 == int64(i),
					fmt.Sprintf("observer %d carries the description of arguments %d/%d", i, n1, n2), pc.pos(oc.Pos()))
			}
			// compositions
			pargs := flattenPipeOp(plain)
			plainOK := len(pargs) == len(ops)
			for i := range ops {
				if plainOK && pargs[i] != ssa.Value(ops[i]) {
					plainOK = false
				}
			}
			pc.add(props, "PN/"+name+"/plain-composition-is-the-operators-in-order", "without a licence the pipeline is operator1 ... operatorN", plainOK, "", pc.pos(plain.Pos()))
			iargs := flattenPipeOp(instr)
			instrOK := len(iargs) == 2*len(ops)
			note := ""
			for i := range ops {
				if !instrOK {
					break
				}
				if iargs[2*i] != ssa.Value(ops[i]) || iargs[2*i+1] != ssa.Value(observers[i]) {
					instrOK = false
					note = fmt.Sprintf("position %d", 2*i)
				}
			}
			pc.add(props, "PN/"+name+"/instrumented-composition-interleaves-operators-and-their-observers", "with a licence the pipeline is operator1, observer0, operator2, observer1, ...", instrOK, note, pc.pos(instr.Pos()))
			a := lic.Call.Args
			var src ssa.Value
			for _, prm := range fn.Params {
				if prm.Name() == "source" {
					src = prm
				}
			}
			pc.add(props, "PN/"+name+"/both-compositions-reach-the-licence-switch", "checkLicenseAndPipe receives the source, the plain and the instrumented composition", a[1] == src && a[2] == ssa.Value(plain) && a[3] == ssa.Value(instr), "", pc.pos(lic.Pos()))
		}
	}
}

// flattenPipeOp lists the operators of a (possibly nested) ro.PipeOpN(...) composition, in application order.
func flattenPipeOp(c *ssa.Call) []ssa.Value {
	var out []ssa.Value
	for _, a := range c.Call.Args {
		if in, ok := a.(*ssa.Call); ok && strings.HasPrefix(staticCalleeName(in.Common()), "PipeOp") {
			out = append(out, flattenPipeOp(in)...)
			continue
		}
		out = append(out, a)
	}
	return out
}

// P9 (C14): a subscribe function or callback that blocks on Subscription.Wait() must have made the awaited subscription
// releasable by the downstream before it waits (registered with the destination), because the teardown it returns does not
// exist yet while it is blocked: otherwise a downstream that terminates early cannot cancel the attempt, and the Subscribe
// call never returns.
func (pc *pCtx) p9BlockingWaits(s *pSite) {
	props := []string{"C14"}
	n := 0
	for _, fn := range s.Closures {
		if s.inTeardown(fn) {
			continue
		}
		for _, b := range fn.Blocks {
			for _, ins := range b.Instrs {
				call, ok := ins.(*ssa.Call)
				if !ok || !call.Common().IsInvoke() || call.Common().Method.Name() != "Wait" || len(call.Common().Args) != 0 {
					continue
				}
				if !hasMethod(call.Common().Value.Type(), "Unsubscribe") {
					continue
				}
				n++
				// registered with the destination beforehand?
				registered := false
				for _, b2 := range fn.Blocks {
					for _, i2 := range b2.Instrs {
						c2, ok := i2.(*ssa.Call)
						if !ok || !c2.Common().IsInvoke() {
							continue
						}
						m := c2.Common().Method.Name()
						if (m == "Add" || m == "AddUnsubscribable") && s.isDest(c2.Common().Value) && precedes(c2, call) {
							registered = true
						}
					}
				}
				// whoever else may cancel it: before the wait, the awaited subscription is handed to a Subscription
				// (Add / AddUnsubscribable release a late registration at once), not merely kept in a cell that a
				// teardown reads - the teardown may have run before the cell was written
				handed := false
				for _, b2 := range fn.Blocks {
					for _, i2 := range b2.Instrs {
						c2, ok := i2.(*ssa.Call)
						if !ok || !c2.Common().IsInvoke() || !precedes(c2, call) {
							continue
						}
						m := c2.Common().Method.Name()
						if m != "Add" && m != "AddUnsubscribable" {
							continue
						}
						for _, a := range c2.Common().Args {
							if derives(a, call.Common().Value, 0) || derives(call.Common().Value, a, 0) || sameLoad(a, call.Common().Value) {
								handed = true
							}
						}
					}
				}
				if refs := call.Common().Value.Referrers(); refs == nil || len(*refs) <= 1 {
					handed = true // Subscribe(...).Wait(): nobody else ever sees it - that is the obligation below, on its own
				}
				pc.add(props, fmt.Sprintf("P9/%s/wait#%d-subscription-is-handed-to-a-subscription-before-the-wait", s.Name, n),
					"a subscription awaited by a subscribe function or callback is registered with a Subscription before the wait (a late registration is released at once; a cell read by the teardown is not enough)", handed,
					"the awaited subscription is not passed to Add / AddUnsubscribable before the wait", pc.pos(call.Pos()))
				pc.add(props, fmt.Sprintf("P9/%s/wait#%d-can-be-cancelled-by-the-downstream", s.Name, n),
					"a subscription awaited inside the subscribe function is registered with the destination before the wait, so that downstream termination releases it and the blocked Subscribe returns", registered,
					"the awaited subscription is only known to the teardown the subscribe function returns after the wait", pc.pos(call.Pos()))
			}
		}
	}
}

// P2c (C03, C14): the releases a teardown makes are unconditional: every Unsubscribe / Stop / close it contains is on
// every path through the teardown function (a guard that only tests the released value for nil is allowed). A teardown
// that releases one thing *or* another leaves the other one subscribed.
func (pc *pCtx) p2cUnconditionalRelease(s *pSite) {
	props := []string{"C03", "C14"}
	// for an operator over several sources this is also C05: the end of the output releases the other sources
	nsubs := 0
	for _, fn := range s.Closures {
		for _, b := range fn.Blocks {
			for _, ins := range b.Instrs {
				if call, ok := ins.(*ssa.Call); ok && call.Common().IsInvoke() && strings.HasPrefix(call.Common().Method.Name(), "Subscribe") && hasMethod(call.Common().Value.Type(), "SubscribeWithContext") {
					nsubs++
					if fn != s.Subscribe || inLoop(call) {
						nsubs++
					}
				}
			}
		}
	}
	if nsubs >= 2 {
		props = append(props, "C05")
	}
	for ti, td := range s.Teardowns {
		if td.Blocks == nil {
			continue
		}
		n := 0
		for _, b := range td.Blocks {
			for _, ins := range b.Instrs {
				call, ok := ins.(*ssa.Call)
				if !ok {
					continue
				}
				name := ""
				if call.Common().IsInvoke() {
					name = call.Common().Method.Name()
				} else if f := call.Common().StaticCallee(); f != nil {
					name = f.Name()
				}
				if name != "Unsubscribe" && name != "Stop" {
					continue
				}
				n++
				ok2 := onEveryPath(td, b, call)
				pc.add(props, fmt.Sprintf("P2c/%s/teardown#%d/release#%d-is-unconditional", s.Name, ti+1, n),
					"every release made by the returned teardown is made on every path through it", ok2,
					"the teardown can return without making this release", pc.pos(call.Pos()))
			}
		}
	}
}

// onEveryPath: every path from the entry of fn to a return passes through block b, ignoring branches that only test the
// released receiver against nil.
func onEveryPath(fn *ssa.Function, b *ssa.BasicBlock, call *ssa.Call) bool {
	if len(fn.Blocks) == 0 || b == fn.Blocks[0] {
		return true
	}
	seen := map[*ssa.BasicBlock]bool{b: true}
	var stack []*ssa.BasicBlock
	stack = append(stack, fn.Blocks[0])
	for len(stack) > 0 {
		cur := stack[len(stack)-1]
		stack = stack[:len(stack)-1]
		if seen[cur] {
			continue
		}
		seen[cur] = true
		if len(cur.Succs) == 0 {
			if _, isRet := cur.Instrs[len(cur.Instrs)-1].(*ssa.Return); isRet {
				return false // reached a return without passing b
			}
			continue
		}
		// a nil guard of the released value: follow only the non-nil branch
		if iff, ok := cur.Instrs[len(cur.Instrs)-1].(*ssa.If); ok && len(cur.Succs) == 2 {
			if bin, ok := iff.Cond.(*ssa.BinOp); ok {
				isNilTest := func(x, y ssa.Value) bool {
					c, ok := y.(*ssa.Const)
					return ok && c.IsNil() && stripLoad(x) == stripLoad(call.Common().Value)
				}
				if isNilTest(bin.X, bin.Y) || isNilTest(bin.Y, bin.X) {
					if bin.Op.String() == "!=" {
						stack = append(stack, cur.Succs[0])
						continue
					}
					if bin.Op.String() == "==" {
						stack = append(stack, cur.Succs[1])
						continue
					}
				}
			}
		}
		stack = append(stack, cur.Succs...)
	}
	return true
}

// P10 (C07, C05): no call on the destination is made while holding a lock that the site's teardown acquires. A terminal
// delivered downstream runs the teardown on the same goroutine (self-deadlock), and a concurrent terminal from another
// source closes the cycle between the operator's lock and the subscriber's lock.
func (pc *pCtx) p10LockOrder(s *pSite) {
	// C06: Unsubscribe may be called from inside a callback - the teardown then runs under every lock the delivery holds;
	// C03 / C14: a downstream that ends during that delivery runs the teardown there, and a teardown that blocks on the lock
	// releases nothing
	props := []string{"C07", "C05", "C06", "C03", "C14"}
	// locks the teardown functions acquire (directly)
	tdLocks := map[ssa.Value]bool{}
	for _, fn := range s.Closures {
		if !s.inTeardown(fn) {
			continue
		}
		for _, b := range fn.Blocks {
			for _, ins := range b.Instrs {
				if call, ok := ins.(*ssa.Call); ok {
					if l, op := s.lockOp(call.Common()); l != nil && op == "lock" {
						tdLocks[l] = true
					}
				}
			}
		}
	}
	if len(tdLocks) == 0 {
		return
	}
	if debugPaths {
		for l := range tdLocks {
			fmt.Fprintf(os.Stderr, "P10 %s teardown lock %s (%T)\n", s.Name, cellName(l), l)
		}
	}
	n := 0
	for _, fn := range s.Closures {
		if s.inTeardown(fn) {
			continue
		}
		ls := s.locksets(fn, nil)
		for _, b := range fn.Blocks {
			for _, ins := range b.Instrs {
				call, ok := ins.(*ssa.Call)
				if !ok || !call.Common().IsInvoke() || !s.isDest(call.Common().Value) {
					continue
				}
				m := call.Common().Method.Name()
				if m != "NextWithContext" && m != "ErrorWithContext" && m != "CompleteWithContext" && m != "Next" && m != "Error" && m != "Complete" {
					continue
				}
				if debugPaths {
					fmt.Fprintf(os.Stderr, "P10 %s %s.%s held=%d\n", s.Name, funcKey(fn), m, len(ls[ins]))
				}
				var held []string
				for l := range ls[ins] {
					if tdLocks[l] {
						held = append(held, cellName(l))
					}
				}
				if len(held) == 0 {
					continue
				}
				n++
				pc.add(props, fmt.Sprintf("P10/%s/downstream-call#%d-is-made-without-the-teardown-lock", s.Name, n),
					"no notification is delivered downstream while holding a lock that the teardown takes (a terminal notification runs the teardown on the delivering goroutine)", false,
					fmt.Sprintf("destination.%s is called while holding %s, which the teardown locks", m, strings.Join(held, ", ")), pc.pos(call.Pos()))
			}
		}
	}
	if n == 0 {
		pc.add(props, fmt.Sprintf("P10/%s/downstream-calls-are-made-without-the-teardown-lock", s.Name),
			"no notification is delivered downstream while holding a lock that the teardown takes", true, "", pc.pos(s.CtorCall.Pos()))
	}
}

// P12: sync/atomic.Value panics when a Store (Swap, CompareAndSwap) brings a value whose dynamic type differs from the
// one stored first. Every store into one atomic.Value cell of a site must therefore wrap a value of one concrete static
// type; a store of an interface-typed value (a context.Context, an error) has a dynamic type the code does not control.
func (pc *pCtx) p12AtomicValue(s *pSite) {
	props := []string{"C04", "C09"}
	type storeInfo struct {
		typ  string
		pos  string
		open bool // the stored operand is itself an interface value
	}
	cells := map[ssa.Value][]storeInfo{}
	var order []ssa.Value
	for _, fn := range s.Closures {
		for _, b := range fn.Blocks {
			for _, ins := range b.Instrs {
				call, ok := ins.(*ssa.Call)
				if !ok {
					continue
				}
				f := call.Common().StaticCallee()
				if f == nil || pkgPathOf(f) != "sync/atomic" || f.Signature.Recv() == nil || recvTypeName(f) != "Value" {
					continue
				}
				if !(f.Name() == "Store" || f.Name() == "Swap" || f.Name() == "CompareAndSwap") || len(call.Common().Args) < 2 {
					continue
				}
				cell := s.root(call.Common().Args[0])
				v := call.Common().Args[len(call.Common().Args)-1]
				si := storeInfo{pos: pc.pos(ins.Pos())}
				switch t := v.(type) {
				case *ssa.MakeInterface:
					if types.IsInterface(t.X.Type()) {
						si.open = true
						si.typ = t.X.Type().String()
					} else {
						si.typ = t.X.Type().String()
					}
				default:
					si.open = true
					si.typ = v.Type().String()
				}
				if _, seen := cells[cell]; !seen {
					order = append(order, cell)
				}
				cells[cell] = append(cells[cell], si)
			}
		}
	}
	for _, cell := range order {
		ok := true
		note := ""
		first := ""
		for _, si := range cells[cell] {
			if si.open {
				ok = false
				note = fmt.Sprintf("the value stored at %s has the interface type %s: its dynamic type is whatever the caller passed, and a Store of a different dynamic type than the first one panics", si.pos, si.typ)
				break
			}
			if first == "" {
				first = si.typ
			} else if si.typ != first {
				ok = false
				note = fmt.Sprintf("values of type %s and %s are stored into the same atomic.Value (%s)", first, si.typ, si.pos)
			}
		}
		pc.add(props, fmt.Sprintf("P12/%s/atomic-value:%s/stores-one-concrete-type", s.Name, cellName(cell)),
			"every Store into one sync/atomic.Value brings a value of the same concrete type (a Store of another dynamic type panics)", ok, note, pc.pos(cell.Pos()))
	}
}

// sameLoad: two values are the same value, or loads of the same cell.
func sameLoad(a, b ssa.Value) bool {
	if a == b {
		return true
	}
	ua, ok1 := a.(*ssa.UnOp)
	ub, ok2 := b.(*ssa.UnOp)
	if ok1 && ok2 && ua.Op == token.MUL && ub.Op == token.MUL && ua.X == ub.X {
		return true
	}
	if mi, ok := a.(*ssa.MakeInterface); ok {
		return sameLoad(mi.X, b)
	}
	if ct, ok := a.(*ssa.ChangeInterface); ok {
		return sameLoad(ct.X, b)
	}
	return false
}
