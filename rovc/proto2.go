package main

import (
	"regexp"
	"fmt"
	"go/token"
	"go/types"
	"sort"
	"strings"

	"golang.org/x/tools/go/ssa"
)

// ---------------------------------------------------------------------------
// P3: frame / independence of subscriptions and operator values (C12)
// ---------------------------------------------------------------------------

var atomicWriters = map[string]bool{"Store": true, "Add": true, "Swap": true, "CompareAndSwap": true, "And": true, "Or": true}

func isAtomicWriter(f *ssa.Function) bool {
	if f == nil || pkgPathOf(f) != "sync/atomic" {
		return false
	}
	n := f.Name()
	for w := range atomicWriters {
		if strings.HasPrefix(n, w) {
			return true
		}
	}
	return false
}

// writeTargets returns the cells (allocations) an instruction may write, with a description.
func (s *pSite) writeTargets(ins ssa.Instruction) []ssa.Value {
	var out []ssa.Value
	addrTarget := func(addr ssa.Value) {
		// writing through a slice element writes the backing array owned by the cell the slice was loaded from
		cur := addr
		for i := 0; i < 16; i++ {
			switch t := cur.(type) {
			case *ssa.FieldAddr:
				cur = t.X
				continue
			case *ssa.IndexAddr:
				if _, isSlice := t.X.Type().Underlying().(*types.Slice); isSlice {
					if al := s.cellOf(t.X); al != nil {
						out = append(out, al)
					} else if pr, ok := s.root(t.X).(*ssa.Parameter); ok {
						out = append(out, pr) // the elements of a slice that was handed in
					}
					return
				}
				cur = t.X
				continue
			}
			break
		}
		if u, ok := cur.(*ssa.UnOp); ok && u.Op == token.MUL && cur != addr {
			// a field or element of the object behind a pointer that is kept in a cell: the object is as shared as the cell
			if al, ok := s.root(u.X).(*ssa.Alloc); ok {
				if _, isPtr := al.Type().Underlying().(*types.Pointer).Elem().Underlying().(*types.Pointer); isPtr {
					out = append(out, derefCell{al})
				}
			}
			return
		}
		r := s.root(cur)
		switch r.(type) {
		case *ssa.Alloc, *ssa.Global:
			out = append(out, r)
		case *ssa.Parameter:
			if cur != addr {
				out = append(out, r) // a field or element of the object a pointer parameter refers to
			}
		}
	}
	switch t := ins.(type) {
	case *ssa.Store:
		addrTarget(t.Addr)
	case *ssa.MapUpdate:
		if al := s.cellOf(t.Map); al != nil {
			out = append(out, al)
		}
	case *ssa.Call:
		if f := t.Common().StaticCallee(); f != nil {
			if isAtomicWriter(f) && len(t.Common().Args) > 0 {
				addrTarget(t.Common().Args[0])
			}
		}
	}
	return out
}

// derefCell: the object a pointer kept in a cell refers to (as a write target).
var timeOperatorRe = regexp.MustCompile(`^(Throttle|Sample|Buffer|Window|Delay|Timeout|Interval|Timer|Timestamp|TimeInterval)`)

var resubscribingOperatorRe = regexp.MustCompile(`^(Retry|Repeat|DoWhile|While|Catch|OnErrorResumeNext|Concat)`)

var limiterOperatorRe = regexp.MustCompile(`^(Take|GroupBy|WindowWhen|MergeAll|MergeMap|Map|Interval)`)

type derefCell struct{ *ssa.Alloc }

func (pc *pCtx) p3Frame(s *pSite) {
	props := []string{"C12"}
	pc.p3SharedObjects(s)
	_, hot := pc.annotated(s.Name, "hot")
	type key struct{ role, cell string }
	seen := map[key]bool{}
	for _, fn := range s.Closures {
		role := s.role(fn)
		for _, b := range fn.Blocks {
			for _, ins := range b.Instrs {
				for _, tgt := range s.writeTargets(ins) {
					inside := true
					what := cellName(tgt)
					switch t := tgt.(type) {
					case *ssa.Alloc:
						inside = s.InTree[t.Parent()]
					case derefCell:
						inside = s.InTree[t.Alloc.Parent()]
						what = "*" + cellName(t.Alloc)
					case *ssa.Global:
						inside = false
						what = "global " + t.Name()
					case *ssa.Parameter:
						// the object behind a pointer (or the elements of a slice) that was handed in: to the
						// constructor (shared by every subscription) or to a callback (the value belongs to the sender)
						inside = false
						what = "*" + t.Name()
						if t.Parent() != nil && t.Parent().Signature.Recv() != nil && len(t.Parent().Params) > 0 && t.Parent().Params[0] == t {
							inside = true // a method's own receiver
						}
					}
					k := key{role, what}
					if seen[k] && inside {
						continue
					}
					seen[k] = true
					ok := inside || hot
					if al, isAl := tgt.(*ssa.Alloc); isAl && hot && !inside && al.Parent() == s.Top && returnsOperator(s.Top) {
						// a hot construct shares state between the subscribers of ONE shared observable: the state lives in the
						// closure that is applied to a source. A cell of the operator factory itself is shared by every
						// observable built from that operator value (Share's refCount hoisted next to the config check)
						ok = false
					}
					props := props
					if hot {
						// what a hot construct shares decides when its source is connected and released (C11, C14)
						props = append(append([]string{}, props...), "C11", "C14")
					}
					if limiterOperatorRe.MatchString(s.Name) {
						// the native rate limiter applies one value of each of these operators to every key and window: state
						// they share is shared between keys (C20)
						props = append(append([]string{}, props...), "C20")
					}
					if timeOperatorRe.MatchString(s.Name) {
						// shared state of a throttling / sampling / buffering / delaying operator is shared timing: one
						// subscription's tick opens another one's gate (C16)
						props = append(append([]string{}, props...), "C16")
					}
					pc.add(props, fmt.Sprintf("P3/%s/%s/writes:%s", s.Name, role, what),
						"state written during a subscription is allocated inside that subscription (each subscription of a recipe starts from scratch)", ok,
						fmt.Sprintf("%s writes %s, which is allocated outside the subscribe function", role, what), pc.pos(ins.Pos()))
				}
			}
		}
	}
}

// p3Lazy: operator construction and application (everything outside the subscribe closures) neither
// subscribes to anything nor mutates captured state.
func (pc *pCtx) p3Lazy(sites []*pSite, only string) {
	props := []string{"C12"}
	byTop := map[*ssa.Function][]*pSite{}
	var tops []*ssa.Function
	for _, s := range sites {
		if _, ok := byTop[s.Top]; !ok {
			tops = append(tops, s.Top)
		}
		byTop[s.Top] = append(byTop[s.Top], s)
	}
	// operator-like functions without a constructor site of their own (they delegate): still checked for
	// writes to captured state in their closures
	var paths []string
	for p := range pc.kc.w.ByPath {
		if isRoPkg(p) && !strings.Contains(p, "/examples/") && !strings.HasSuffix(p, "/testing") && !strings.Contains(p, "/internal/") {
			paths = append(paths, p)
		}
	}
	sort.Strings(paths)
	for _, p := range paths {
		fns := pc.kc.w.allFuncs(p)
		for _, k := range sortedKeys(fns) {
			fn := fns[k]
			if fn.Parent() != nil || fn.Blocks == nil || len(fn.AnonFuncs) == 0 || fn.Signature.Recv() != nil {
				continue
			}
			if _, ok := byTop[fn]; ok {
				continue
			}
			if strings.HasSuffix(pc.kc.w.Prog.Fset.Position(fn.Pos()).Filename, "_test.go") || !returnsOperatorOrObservable(fn) {
				continue
			}
			name := k
			if p != roPath {
				name = strings.TrimPrefix(p, roPath+"/") + "." + k
			}
			ps := &pSite{opSite: &opSite{Subscribe: fn}, Name: name, Top: fn, Pkg: p, InTree: map[*ssa.Function]bool{}, parent: map[*ssa.Function]*ssa.MakeClosure{}}
			for _, f := range closureTree(fn) {
				for _, b := range f.Blocks {
					for _, ins := range b.Instrs {
						if mc, ok := ins.(*ssa.MakeClosure); ok {
							if cf, ok := mc.Fn.(*ssa.Function); ok {
								ps.parent[cf] = mc
							}
						}
					}
				}
			}
			tops = append(tops, fn)
			byTop[fn] = []*pSite{ps}
			// the lambdas such a function hands to the operator it delegates to run once per item of every subscription:
			// library objects allocated next to them (when the operator value is built) are shared
			sh := &pSite{opSite: &opSite{Subscribe: fn}, Name: name, Top: fn, Pkg: p, InTree: map[*ssa.Function]bool{}, parent: ps.parent}
			for _, f := range closureTree(fn) {
				if f != fn {
					sh.InTree[f] = true
					sh.Closures = append(sh.Closures, f)
				}
			}
			if only == "" || strings.Contains(name, only) {
				switch {
				case strings.Contains(p, "/ee/plugins/prometheus"):
					pc.curExtra = []string{"C19"}
				case strings.Contains(p, "/plugins/ratelimit"):
					pc.curExtra = []string{"C20"}
				case strings.Contains(p, "/plugins/"):
					pc.curExtra = []string{"C18"}
				}
				pc.p3SharedObjects(sh)
				pc.curExtra = nil
			}
		}
	}
	for _, top := range tops {
		ss := byTop[top]
		name := strings.SplitN(ss[0].Name, "#", 2)[0]
		if only != "" && !strings.Contains(name, only) {
			continue
		}
		_, hot := pc.annotated(name, "hot")
		inAny := map[*ssa.Function]bool{}
		for _, s := range ss {
			for f := range s.InTree {
				inAny[f] = true
			}
		}
		s0 := ss[0]
		lazyOK := true
		lazyNote := ""
		pureOK := true
		pureNote := ""
		for _, fn := range closureTree(top) {
			if inAny[fn] {
				continue
			}
			for _, b := range fn.Blocks {
				for _, ins := range b.Instrs {
					// a clock or random reading taken while the pipeline is built is shared by every later subscription
					if call, ok := ins.(ssa.CallInstruction); ok {
						if f := call.Common().StaticCallee(); f != nil && f.Pkg != nil {
							pp := f.Pkg.Pkg.Path()
							if (pp == "time" && (f.Name() == "Now" || f.Name() == "Since" || f.Name() == "Until")) || strings.HasSuffix(pp, "internal/xtime") || strings.HasSuffix(pp, "internal/xrand") || pp == "math/rand" || pp == "math/rand/v2" {
								pureOK = false
								pureNote = fmt.Sprintf("%s.%s is read while the pipeline is being built (%s), not per subscription", pp, f.Name(), pc.pos(ins.Pos()))
							}
						}
					}
					if call, ok := ins.(ssa.CallInstruction); ok && call.Common().IsInvoke() {
						m := call.Common().Method.Name()
						if (strings.HasPrefix(m, "Subscribe") || strings.HasPrefix(m, "Connect")) && hasMethod(call.Common().Value.Type(), "SubscribeWithContext") {
							lazyOK = false
							lazyNote = fmt.Sprintf("%s is called while the pipeline is being built (%s)", m, pc.pos(ins.Pos()))
						}
					}
					for _, tgt := range s0.writeTargets(ins) {
						al, ok := tgt.(*ssa.Alloc)
						if !ok {
							if g, ok := tgt.(*ssa.Global); ok {
								pc.add(props, fmt.Sprintf("P3/%s/apply/writes:global %s", name, g.Name()), "building or applying an operator does not mutate shared state", hot, "operator construction writes global "+g.Name(), pc.pos(ins.Pos()))
							}
							continue
						}
						if al.Parent() == fn {
							continue // own local
						}
						// (two pipelines built from one operator value then deliver each other's values: also a matter of C04)
						aprops := append(append([]string{}, props...), "C04", "C05")
						if limiterOperatorRe.MatchString(name) {
							aprops = append(aprops, "C20")
						}
						if resubscribingOperatorRe.MatchString(name) {
							aprops = append(aprops, "C15") // which source an attempt subscribes to, and how often
						}
						pc.add(aprops, fmt.Sprintf("P3/%s/apply/writes:%s", name, cellName(al)),
							"applying an operator value to a source does not mutate state captured by the operator value (two applications are independent)", hot,
							fmt.Sprintf("the closure %s writes captured variable %s", funcKey(fn), cellName(al)), pc.pos(ins.Pos()))
					}
				}
			}
		}
		pc.add(props, fmt.Sprintf("P3/%s/lazy", name), "building a pipeline subscribes to nothing: sources are subscribed only inside subscribe functions", lazyOK || hot, lazyNote, pc.pos(top.Pos()))
		// for the time-driven operators the reading would also shift every deadline (C16), and the native rate limiter
		// builds its windows from Interval (C20)
		cprops := props
		timeDriven := false
		for _, fn := range closureTree(top) {
			for _, b := range fn.Blocks {
				for _, ins := range b.Instrs {
					if call, ok := ins.(ssa.CallInstruction); ok {
						if f := call.Common().StaticCallee(); f != nil && f.Pkg != nil && (f.Pkg.Pkg.Path() == "time" || strings.HasSuffix(f.Pkg.Pkg.Path(), "internal/xtime")) {
							timeDriven = true
						}
					}
				}
			}
		}
		if timeDriven {
			cprops = append(append([]string{}, props...), "C16")
			if name == "Interval" {
				cprops = append(cprops, "C20")
			}
		}
		pc.add(cprops, fmt.Sprintf("P3/%s/no-clock-or-random-reading-at-construction", name), "the clock and the random source are read per subscription, never while an operator is built or applied (the reading would be shared by every subscription)", pureOK, pureNote, pc.pos(top.Pos()))
	}
}

// ---------------------------------------------------------------------------
// P2: release of upstream subscriptions and timers (C03, C14)
// ---------------------------------------------------------------------------

// usesOf returns the instructions using value v, following it through cells it is stored in and phis.
func (s *pSite) usesOf(v ssa.Value) []ssa.Instruction {
	var out []ssa.Instruction
	seen := map[ssa.Value]bool{}
	var visit func(v ssa.Value)
	visit = func(v ssa.Value) {
		if seen[v] || v.Referrers() == nil {
			return
		}
		seen[v] = true
		for _, r := range *v.Referrers() {
			out = append(out, r)
			switch t := r.(type) {
			case *ssa.Store:
				if t.Val == v {
					if al, ok := s.root(t.Addr).(*ssa.Alloc); ok {
						// every load of that cell anywhere in the site
						for f := range s.InTree {
							for _, b := range f.Blocks {
								for _, ins := range b.Instrs {
									if u, ok := ins.(*ssa.UnOp); ok && u.Op == token.MUL && s.root(u.X) == ssa.Value(al) {
										visit(u)
									}
								}
							}
						}
					}
				}
			case *ssa.Phi:
				visit(t)
			case *ssa.ChangeInterface:
				visit(t)
			case *ssa.MakeInterface:
				visit(t)
			case *ssa.TypeAssert:
				visit(t)
			case *ssa.Extract:
				visit(t)
			case *ssa.MakeClosure:
				// method value v.M$bound
				visit(t)
			case *ssa.ChangeType:
				visit(t)
			}
		}
	}
	visit(v)
	return out
}

func (s *pSite) inTeardown(fn *ssa.Function) bool {
	return s.teardownReach()[fn]
}

func (s *pSite) isReturnedBySubscribe(v ssa.Value) bool {
	for _, r := range *v.Referrers() {
		switch t := r.(type) {
		case *ssa.Return:
			if t.Parent() == s.Subscribe {
				return true
			}
		case *ssa.ChangeType:
			if s.isReturnedBySubscribe(t) {
				return true
			}
		case *ssa.Phi:
			if s.isReturnedBySubscribe(t) {
				return true
			}
		}
	}
	return false
}

// teardownReach: the functions that can run when the teardown runs (the returned closures and the local
// closures they call, transitively).
func (s *pSite) teardownReach() map[*ssa.Function]bool {
	if s.tdReach != nil {
		return s.tdReach
	}
	out := map[*ssa.Function]bool{}
	var visit func(f *ssa.Function)
	visit = func(f *ssa.Function) {
		if out[f] {
			return
		}
		out[f] = true
		for _, a := range f.AnonFuncs {
			visit(a)
		}
		for _, b := range f.Blocks {
			for _, ins := range b.Instrs {
				if call, ok := ins.(ssa.CallInstruction); ok && !call.Common().IsInvoke() {
					for _, cf := range s.calleesOf(call.Common()) {
						visit(cf)
					}
				}
			}
		}
	}
	for _, t := range s.Teardowns {
		visit(t)
	}
	s.tdReach = out
	return out
}

// derives: value a is v, possibly converted, merged by a phi, or v's Unsubscribe method value.
func derives(a, v ssa.Value, depth int) bool {
	if a == v {
		return true
	}
	if depth > 6 {
		return false
	}
	switch t := a.(type) {
	case *ssa.ChangeInterface:
		return derives(t.X, v, depth+1)
	case *ssa.MakeInterface:
		return derives(t.X, v, depth+1)
	case *ssa.ChangeType:
		return derives(t.X, v, depth+1)
	case *ssa.TypeAssert:
		return derives(t.X, v, depth+1)
	case *ssa.Phi:
		for _, e := range t.Edges {
			if derives(e, v, depth+1) {
				return true
			}
		}
	case *ssa.MakeClosure:
		if f, ok := t.Fn.(*ssa.Function); ok && f.Name() == "Unsubscribe$bound" && len(t.Bindings) == 1 {
			return derives(t.Bindings[0], v, depth+1)
		}
	}
	return false
}

// releasedLater: value w, observed in code that runs with the teardown, ends up unsubscribed.
func (s *pSite) releasedLater(w ssa.Value, depth int) (bool, string) {
	if depth > 5 || w.Referrers() == nil {
		return false, ""
	}
	for _, r := range *w.Referrers() {
		switch t := r.(type) {
		case ssa.CallInstruction:
			c := t.Common()
			if c.IsInvoke() {
				m := c.Method.Name()
				if derives(c.Value, w, 0) && m == "Unsubscribe" {
					return true, "Unsubscribe is called on it by the teardown"
				}
				for _, a := range c.Args {
					if derives(a, w, 0) && (m == "Add" || m == "AddUnsubscribable") {
						if ok, why := s.compositeReleased(c.Value, t.Parent(), depth+1); ok {
							return true, why
						}
					}
				}
			} else if !c.IsInvoke() {
				// calling the bound Unsubscribe
				if derives(c.Value, w, 0) {
					return true, "its Unsubscribe is called by the teardown"
				}
			}
		case *ssa.ChangeInterface, *ssa.MakeInterface, *ssa.ChangeType, *ssa.TypeAssert, *ssa.Phi, *ssa.MakeClosure:
			if v2, ok := r.(ssa.Value); ok && derives(v2, w, 0) {
				if ok, why := s.releasedLater(v2, depth+1); ok {
					return true, why
				}
			}
		}
	}
	return false, ""
}

// compositeReleased: the composite subscription x (receiver of an Add call in function fn) is itself released:
// it is the destination, or Unsubscribe is invoked on it in code that runs with the teardown, or its
// Unsubscribe is the returned teardown, or it is unsubscribed locally right there (a temporary composite).
func (s *pSite) compositeReleased(x ssa.Value, fn *ssa.Function, depth int) (bool, string) {
	if s.isDest(x) {
		return true, "it is added to the destination subscriber"
	}
	if ta, ok := x.(*ssa.TypeAssert); ok && s.isDest(ta.X) {
		return true, "it is added to the destination subscriber"
	}
	if ex, ok := x.(*ssa.Extract); ok {
		if ta, ok := ex.Tuple.(*ssa.TypeAssert); ok && s.isDest(ta.X) {
			return true, "it is added to the destination subscriber"
		}
	}
	if depth > 5 {
		return false, ""
	}
	// the composite as a cell: look at every load of the cell in teardown-reachable code and at the returned value
	reach := s.teardownReach()
	check := func(w ssa.Value, inFn *ssa.Function) (bool, string) {
		if w.Referrers() == nil {
			return false, ""
		}
		for _, r := range *w.Referrers() {
			switch t := r.(type) {
			case ssa.CallInstruction:
				c := t.Common()
				if c.IsInvoke() && c.Method.Name() == "Unsubscribe" && derives(c.Value, w, 0) && (reach[inFn] || inFn == fn && !s.isCallbackOrBody(fn)) {
					return true, "it is added to a composite subscription that the teardown unsubscribes"
				}
			case *ssa.MakeClosure:
				if f, ok := t.Fn.(*ssa.Function); ok && f.Name() == "Unsubscribe$bound" && s.isReturnedBySubscribe(t) {
					return true, "it is added to the composite subscription whose Unsubscribe is the returned teardown"
				}
			}
		}
		return false, ""
	}
	// direct value
	if ok, why := check(x, fn); ok {
		return true, why
	}
	// through the cell it lives in
	var cell *ssa.Alloc
	if al := s.cellOf(x); al != nil {
		cell = al
	} else if x.Referrers() != nil {
		for _, r := range *x.Referrers() {
			if st, ok := r.(*ssa.Store); ok && st.Val == x {
				if al, ok := s.root(st.Addr).(*ssa.Alloc); ok {
					cell = al
				}
			}
		}
	}
	if cell != nil {
		for f := range s.InTree {
			for _, b := range f.Blocks {
				for _, ins := range b.Instrs {
					if u, ok := ins.(*ssa.UnOp); ok && u.Op == token.MUL && s.root(u.X) == ssa.Value(cell) {
						if ok, why := check(u, f); ok {
							return true, why
						}
					}
				}
			}
		}
	}
	return false, ""
}

func (s *pSite) isCallbackOrBody(fn *ssa.Function) bool {
	return !s.teardownReach()[fn]
}

// registers: instruction ins (in the function that made subscription value v) hands v over to something that
// the teardown releases, or releases / waits for it on the spot.
func (s *pSite) registers(ins ssa.Instruction, v ssa.Value) (bool, string) {
	reach := s.teardownReach()
	switch t := ins.(type) {
	case *ssa.Return:
		for _, r := range t.Results {
			if derives(r, v, 0) && t.Parent() == s.Subscribe {
				return true, "its Unsubscribe is the returned teardown"
			}
		}
	case *ssa.Store:
		if !derives(t.Val, v, 0) {
			return false, ""
		}
		// stored into a captured cell or into an element of a slice held by a captured cell
		var cell *ssa.Alloc
		isElem := false
		if ia, ok := t.Addr.(*ssa.IndexAddr); ok {
			if al := s.cellOf(ia.X); al != nil {
				cell, isElem = al, true
			}
		} else if al, ok := s.root(t.Addr).(*ssa.Alloc); ok {
			cell = al
		}
		if cell == nil {
			return false, ""
		}
		if t.Parent() != s.Subscribe {
			// a subscription opened by a callback: the teardown may already have run when the cell is written, and
			// a plain cell - unlike Subscription.Add, which releases a late registration at once - then keeps it for ever
			return false, ""
		}
		for f := range reach {
			for _, b := range f.Blocks {
				for _, i2 := range b.Instrs {
					u, ok := i2.(*ssa.UnOp)
					if !ok || u.Op != token.MUL {
						continue
					}
					if isElem {
						// load of cell[...]
						if ia, ok := u.X.(*ssa.IndexAddr); ok && s.cellOf(ia.X) == cell {
							if ok, why := s.releasedLater(u, 0); ok {
								return true, "it is stored in " + cellName(cell) + "[...]; " + why
							}
						}
						continue
					}
					if s.root(u.X) == ssa.Value(cell) {
						if ok, why := s.releasedLater(u, 0); ok {
							return true, "it is stored in " + cellName(cell) + "; " + why
						}
					}
				}
			}
		}
		// the cell's Unsubscribe method value returned as the teardown
		for _, b := range s.Subscribe.Blocks {
			for _, i2 := range b.Instrs {
				if ret, ok := i2.(*ssa.Return); ok {
					for _, r := range ret.Results {
						if mc, ok := r.(*ssa.MakeClosure); ok && len(mc.Bindings) == 1 {
							if u, ok := mc.Bindings[0].(*ssa.UnOp); ok && u.Op == token.MUL && s.root(u.X) == ssa.Value(cell) && !isElem {
								return true, "its Unsubscribe is the returned teardown"
							}
						}
					}
				}
			}
		}
	case ssa.CallInstruction:
		c := t.Common()
		if !c.IsInvoke() {
			return false, ""
		}
		m := c.Method.Name()
		if derives(c.Value, v, 0) && (m == "Unsubscribe" || m == "Wait") {
			return true, "it is unsubscribed / waited for on the spot"
		}
		for _, a := range c.Args {
			if derives(a, v, 0) && (m == "Add" || m == "AddUnsubscribable") {
				if ok, why := s.compositeReleased(c.Value, ins.Parent(), 0); ok {
					return true, why
				}
			}
		}
	}
	return false, ""
}

// released: on every path from the subscription call to the end of its function (or back to the call in a loop)
// the subscription is registered with something the teardown releases.
func (s *pSite) released(call *ssa.Call, depth int) (bool, string) {
	fn := call.Parent()
	why := ""
	type pos struct {
		b *ssa.BasicBlock
		i int
	}
	start := pos{call.Block(), 0}
	for i, ins := range call.Block().Instrs {
		if ins == ssa.Instruction(call) {
			start.i = i + 1
		}
	}
	seen := map[*ssa.BasicBlock]bool{}
	var bad string
	var walk func(p pos) bool // true = every path from p registers
	walk = func(p pos) bool {
		for i := p.i; i < len(p.b.Instrs); i++ {
			ins := p.b.Instrs[i]
			if ok, w := s.registers(ins, call); ok {
				if why == "" {
					why = w
				}
				return true
			}
			if ins == ssa.Instruction(call) {
				bad = "the loop reaches the next iteration without registering the subscription"
				return false
			}
			switch ins.(type) {
			case *ssa.Return:
				bad = "a path returns without registering the subscription (" + fmt.Sprint(s.posOf(ins)) + ")"
				return false
			case *ssa.Panic:
				return true
			}
		}
		for _, succ := range p.b.Succs {
			if succ == call.Block() && p.b != call.Block() || succ == call.Block() {
				// back to the call: next iteration
				if !seen[succ] {
					seen[succ] = true
					if !walk(pos{succ, 0}) {
						return false
					}
				}
				continue
			}
			if seen[succ] {
				continue
			}
			seen[succ] = true
			if !walk(pos{succ, 0}) {
				return false
			}
		}
		return true
	}
	_ = fn
	if walk(start) {
		if why == "" {
			why = "registered on every path"
		}
		return true, why
	}
	return false, bad
}

func (s *pSite) posOf(ins ssa.Instruction) string {
	p := ins.Pos()
	if !p.IsValid() {
		return ""
	}
	ps := s.Top.Prog.Fset.Position(p)
	return fmt.Sprintf("%s:%d", shortFile(ps.Filename), ps.Line)
}

func (pc *pCtx) p2Release(s *pSite) {
	props := []string{"C03", "C14"}
	assume, hasAssume := pc.annotated(s.Name, "assume-released")
	idx := map[string]int{}
	// an operator over several sources (two subscriptions, or one made per value of an outer source) also owes the
	// release to C05: the end of the output releases the other sources
	nsubs := 0
	for _, fn := range s.Closures {
		for _, b := range fn.Blocks {
			for _, ins := range b.Instrs {
				if call, ok := ins.(*ssa.Call); ok && call.Common().IsInvoke() && strings.HasPrefix(call.Common().Method.Name(), "Subscribe") && hasMethod(call.Common().Value.Type(), "SubscribeWithContext") {
					nsubs++
					if fn != s.Subscribe || inLoop(call) {
						nsubs++
					}
				}
			}
		}
	}
	if nsubs >= 2 {
		props = append(props, "C05")
	}
	for _, fn := range s.Closures {
		role := s.role(fn)
		for _, b := range fn.Blocks {
			for _, ins := range b.Instrs {
				call, ok := ins.(*ssa.Call)
				if !ok {
					continue
				}
				c := call.Common()
				kind := ""
				what := ""
				if c.IsInvoke() && (c.Method.Name() == "SubscribeWithContext" || c.Method.Name() == "Subscribe" || c.Method.Name() == "ConnectWithContext" || c.Method.Name() == "Connect") && hasMethod(c.Value.Type(), "SubscribeWithContext") {
					kind = "subscription"
					what = cellName(s.root(stripLoad(c.Value)))
					if what == "" || strings.HasPrefix(what, "t") && len(what) <= 4 {
						what = valueName(c.Value)
					}
				} else if f := c.StaticCallee(); f != nil && pkgPathOf(f) == "time" && (f.Name() == "NewTimer" || f.Name() == "NewTicker" || f.Name() == "AfterFunc") {
					kind = "timer"
					what = f.Name()
				} else if hf, comp := registeringHelper(c, s); hf != nil {
					// a helper of the package that subscribes on the operator's behalf and registers what it subscribed with
					// the composite subscription it is handed (zipInnerSubscription(..., subscriptions)): the teardown
					// releases that composite
					base := fmt.Sprintf("P2/%s/%s/subscription:helper %s", s.Name, role, hf.Name())
					idx[base]++
					name := base
					if idx[base] > 1 {
						name = fmt.Sprintf("%s#%d", base, idx[base])
					}
					ok2, why := s.compositeReleased(comp, fn, 0)
					pc.add(props, name, "every subscription opened by the subscribe function is released by what it returns or registers (or is waited for)", ok2, why, pc.pos(ins.Pos()))
					continue
				} else if hf := subscribingHelper(c, s); hf != nil {
					// a helper of the package that subscribes on the operator's behalf and returns the teardown of what it
					// subscribed (zipAllInnerSubscriptions): its result is a subscription like any other
					kind = "subscription"
					what = "helper " + hf.Name()
				} else {
					continue
				}
				base := fmt.Sprintf("P2/%s/%s/%s:%s", s.Name, role, kind, what)
				idx[base]++
				name := base
				if idx[base] > 1 {
					name = fmt.Sprintf("%s#%d", base, idx[base])
				}
				ok2, why := false, ""
				if kind == "subscription" {
					ok2, why = s.released(call, 0)
				} else {
					ok2, why = s.timerStopped(call)
				}
				if !ok2 && hasAssume && strings.Contains(assume, what) {
					ok2 = true
					why = "assumed: " + assume
				}
				oprops := props
				if kind == "timer" {
					oprops = append(append([]string{}, props...), "C16") // a time-driven operator falls silent when it is told to stop
				}
				pc.add(oprops, name, "every "+kind+" opened by the subscribe function is released by what it returns or registers (or is waited for)", ok2, why, pc.pos(ins.Pos()))
			}
		}
	}
	// a nil teardown is only acceptable when nothing is left open: covered by the obligations above
}

func (s *pSite) timerStopped(v ssa.Value) (bool, string) {
	for _, u := range s.usesOf(v) {
		switch t := u.(type) {
		case ssa.CallInstruction:
			c := t.Common()
			if f := c.StaticCallee(); f != nil && f.Name() == "Stop" && len(c.Args) > 0 {
				if s.inTeardown(t.Parent()) {
					return true, "Stop is called by the teardown"
				}
				if _, isDefer := u.(*ssa.Defer); isDefer {
					return true, "Stop is deferred in the function that created it"
				}
			}
		}
	}
	return false, "the timer is never stopped by the teardown"
}

// ---------------------------------------------------------------------------
// P4: producer mode (C02) and P5: synchrony (C08)
// ---------------------------------------------------------------------------

// emitsToDest: fn (or a local closure it calls directly) calls an emission method on the destination,
// or passes the destination on as an observer.
func (s *pSite) emitsToDest(fn *ssa.Function, seen map[*ssa.Function]bool) bool {
	if seen[fn] {
		return false
	}
	seen[fn] = true
	for _, b := range fn.Blocks {
		for _, ins := range b.Instrs {
			call, ok := ins.(ssa.CallInstruction)
			if !ok {
				continue
			}
			if _, isGo := ins.(*ssa.Go); isGo {
				continue
			}
			c := call.Common()
			if c.IsInvoke() {
				if emitMethods[c.Method.Name()] && s.isDest(c.Value) {
					return true
				}
				if strings.HasPrefix(c.Method.Name(), "Subscribe") {
					for _, a := range c.Args {
						if s.isDest(a) {
							return true
						}
					}
				}
				continue
			}
			// direct call of a local closure
			for _, callee := range s.calleesOf(c) {
				if s.emitsToDest(callee, seen) {
					return true
				}
			}
			// helper taking the destination (or one of its methods) as an argument (processNotificationWith...)
			for _, a := range c.Args {
				if s.isDest(a) {
					return true
				}
				if mc, ok := a.(*ssa.MakeClosure); ok && len(mc.Bindings) == 1 && s.isDest(mc.Bindings[0]) {
					return true
				}
			}
		}
	}
	return false
}

// calleesOf resolves a call of a function value to the local closures it may denote.
func (s *pSite) calleesOf(c *ssa.CallCommon) []*ssa.Function {
	var out []*ssa.Function
	switch v := c.Value.(type) {
	case *ssa.MakeClosure:
		if f, ok := v.Fn.(*ssa.Function); ok {
			out = append(out, f)
		}
	case *ssa.Function:
		if s.InTree[v] {
			out = append(out, v)
		}
	case *ssa.UnOp:
		if al := s.cellOf(v); al != nil {
			for f := range s.InTree {
				for _, b := range f.Blocks {
					for _, ins := range b.Instrs {
						if st, ok := ins.(*ssa.Store); ok && s.root(st.Addr) == ssa.Value(al) {
							if mc, ok := st.Val.(*ssa.MakeClosure); ok {
								if cf, ok := mc.Fn.(*ssa.Function); ok {
									out = append(out, cf)
								}
							}
						}
					}
				}
			}
		}
	}
	return out
}

type emitCtx struct {
	Kind string // triple | go | timer | body
	Name string
	Many bool
	Pos  token.Pos
}

func inLoop(ins ssa.Instruction) bool {
	b := ins.Block()
	fn := b.Parent()
	for _, h := range fn.Blocks {
		isHeader := false
		for _, p := range h.Preds {
			if h.Dominates(p) {
				isHeader = true
			}
		}
		if isHeader && naturalLoop(h)[b.Index] {
			return true
		}
	}
	return false
}

func (s *pSite) emitContexts() []emitCtx {
	var out []emitCtx
	kinds := []string{"next", "error", "complete"}
	for ti := range s.Triples {
		t := &s.Triples[ti]
		emits := false
		for _, a := range t.Args {
			switch v := a.(type) {
			case *ssa.MakeClosure:
				f := v.Fn.(*ssa.Function)
				if strings.HasSuffix(f.Name(), "$bound") {
					if len(v.Bindings) == 1 && s.isDest(v.Bindings[0]) {
						emits = true
					}
				} else if s.emitsToDest(f, map[*ssa.Function]bool{}) {
					emits = true
				}
			case *ssa.Function:
				if s.emitsToDest(v, map[*ssa.Function]bool{}) {
					emits = true
				}
			}
		}
		if !emits {
			continue
		}
		many := false
		// where is the subscription made?
		var subCall *ssa.Call
		for _, r := range *t.Call.Referrers() {
			if c2, ok := r.(*ssa.Call); ok && c2.Common().IsInvoke() && strings.HasPrefix(c2.Common().Method.Name(), "Subscribe") {
				subCall = c2
			}
		}
		where := t.In
		if subCall != nil {
			where = subCall.Parent()
			if inLoop(subCall) {
				many = true
				// a loop whose body waits for the subscription before iterating again is sequential
				if s.waitedInPlace(subCall) {
					many = false
				}
			}
		}
		if where != s.Subscribe && !s.inTeardown(where) {
			// subscribed from inside a callback: many, unless waited in place or made from a terminal callback
			many = true
			if subCall != nil && s.waitedInPlace(subCall) {
				continue // sequential with (part of) the enclosing context
			}
			role := s.role(where)
			if strings.HasPrefix(role, "error") || strings.HasPrefix(role, "complete") {
				continue // created by a terminal callback: nothing of the enclosing context follows
			}
		}
		_ = kinds
		out = append(out, emitCtx{Kind: "triple", Name: "source " + t.Source, Many: many, Pos: t.Call.Pos()})
	}
	// observers that are the destination itself (pass-through subscription)
	for _, fn := range s.Closures {
		for _, b := range fn.Blocks {
			for _, ins := range b.Instrs {
				switch t := ins.(type) {
				case *ssa.Call:
					c := t.Common()
					if c.IsInvoke() && strings.HasPrefix(c.Method.Name(), "Subscribe") {
						for _, a := range c.Args {
							if s.isDest(a) {
								many := fn != s.Subscribe || inLoop(t)
								if many && s.waitedInPlace(t) {
									many = false
								}
								role := s.role(fn)
								if fn != s.Subscribe && (strings.HasPrefix(role, "error") || strings.HasPrefix(role, "complete")) {
									continue
								}
								out = append(out, emitCtx{Kind: "triple", Name: "pass-through to " + valueName(c.Value), Many: many, Pos: t.Pos()})
							}
						}
					}
					if f := c.StaticCallee(); f != nil && pkgPathOf(f) == "time" && f.Name() == "AfterFunc" && len(c.Args) == 2 {
						for _, cf := range s.closuresOfValue(c.Args[1]) {
							if s.emitsToDest(cf, map[*ssa.Function]bool{}) {
								out = append(out, emitCtx{Kind: "timer", Name: "time.AfterFunc", Many: fn != s.Subscribe || inLoop(t), Pos: t.Pos()})
							}
						}
					}
				case *ssa.Go:
					c := t.Common()
					var cfs []*ssa.Function
					cfs = append(cfs, s.closuresOfValue(c.Value)...)
					for _, a := range c.Args {
						cfs = append(cfs, s.closuresOfValue(a)...)
					}
					for _, cf := range cfs {
						if s.emitsToDest(cf, map[*ssa.Function]bool{}) || s.subscribesEmitting(cf) {
							out = append(out, emitCtx{Kind: "go", Name: "goroutine " + s.role(cf), Many: fn != s.Subscribe || inLoop(t), Pos: t.Pos()})
						}
					}
				}
			}
		}
	}
	// subscriptions made by a helper function of the package that is handed the destination (zipInnerSubscription):
	// every such call is a source whose callbacks emit
	for _, fn := range s.Closures {
		for _, b := range fn.Blocks {
			for _, ins := range b.Instrs {
				call, ok := ins.(*ssa.Call)
				if !ok {
					continue
				}
				callee := call.Common().StaticCallee()
				if callee == nil {
					continue
				}
				if o := callee.Origin(); o != nil {
					callee = o
				}
				if callee.Blocks == nil || callee.Parent() != nil || callee.Signature.Recv() != nil || callee.Pkg == nil || s.Subscribe.Pkg == nil || callee.Pkg != s.Subscribe.Pkg {
					continue
				}
				getsDest := false
				for _, a := range call.Common().Args {
					if s.isDest(a) {
						getsDest = true
					}
				}
				if !getsDest {
					continue
				}
				subscribes, inLoopSub := helperSubscribes(callee, 0)
				if subscribes {
					out = append(out, emitCtx{Kind: "triple", Name: "helper " + callee.Name(), Many: inLoopSub || inLoop(call) || fn != s.Subscribe, Pos: call.Pos()})
				}
			}
		}
	}
	// the subscribe function body itself
	if s.bodyEmits() {
		out = append(out, emitCtx{Kind: "body", Name: "subscribe function", Pos: s.Subscribe.Pos()})
	}
	return out
}

func (s *pSite) bodyEmits() bool {
	fn := s.Subscribe
	for _, b := range fn.Blocks {
		for _, ins := range b.Instrs {
			call, ok := ins.(*ssa.Call)
			if !ok {
				continue
			}
			c := call.Common()
			if c.IsInvoke() && emitMethods[c.Method.Name()] && s.isDest(c.Value) {
				return true
			}
			if !c.IsInvoke() {
				for _, cf := range s.calleesOf(c) {
					if s.emitsToDest(cf, map[*ssa.Function]bool{}) {
						return true
					}
				}
			}
		}
	}
	return false
}

// subscribesEmitting: a goroutine body that subscribes an emitting observer counts as an emitting context only
// through that triple (already counted); so this returns false. Kept for clarity.
func (s *pSite) subscribesEmitting(fn *ssa.Function) bool { return false }

func (s *pSite) closuresOfValue(v ssa.Value) []*ssa.Function {
	switch t := v.(type) {
	case *ssa.MakeClosure:
		if f, ok := t.Fn.(*ssa.Function); ok {
			return []*ssa.Function{f}
		}
	case *ssa.Function:
		if s.InTree[t] {
			return []*ssa.Function{t}
		}
	case *ssa.UnOp:
		c := &ssa.CallCommon{Value: t}
		return s.calleesOf(c)
	case *ssa.ChangeType:
		return s.closuresOfValue(t.X)
	}
	return nil
}

// waitedInPlace: the result of the Subscribe call is Wait()ed in the same function.
func (s *pSite) waitedInPlace(call *ssa.Call) bool {
	for _, u := range s.usesOf(call) {
		if ci, ok := u.(ssa.CallInstruction); ok && ci.Common().IsInvoke() && ci.Common().Method.Name() == "Wait" && ci.Parent() == call.Parent() {
			return true
		}
	}
	return false
}

func (pc *pCtx) p4Mode(s *pSite) {
	props := []string{"C01", "C02", "C05", "C13"} // without the lock, the callbacks of the sources (and the downstream state behind them) run concurrently
	ctxs := s.emitContexts()
	n := 0
	var names []string
	for _, c := range ctxs {
		if c.Kind == "body" {
			continue
		}
		n++
		if c.Many {
			n++
		}
		nm := c.Name
		if c.Many {
			nm += " (many)"
		}
		names = append(names, nm)
	}
	// the body is concurrent with goroutines/timers it started (not with synchronous upstream deliveries)
	hasAsync := false
	for _, c := range ctxs {
		if c.Kind == "go" || c.Kind == "timer" {
			hasAsync = true
		}
	}
	for _, c := range ctxs {
		if c.Kind == "body" && hasAsync {
			n++
			names = append(names, c.Name)
		}
	}
	safe := safeCtors[s.Ctor]
	if s.Ctor == "NewObservableWithConcurrencyMode" {
		safe = false
		if len(s.CtorCall.Call.Args) > 1 {
			if c, ok := s.CtorCall.Call.Args[1].(*ssa.Const); ok && c.Int64() == 0 {
				safe = true
			}
		}
	}
	_, seq := pc.annotated(s.Name, "assume-seq")
	ok := n < 2 || safe || seq
	sort.Strings(names)
	pc.add(props, fmt.Sprintf("P4/%s/producer-mode", s.Name),
		"a subscribe function whose destination can be reached from two or more concurrent emission contexts is built with a safe (locking) constructor", ok,
		fmt.Sprintf("%d concurrent emission contexts %v with constructor %s", n, names, s.Ctor), pc.pos(s.CtorCall.Pos()))
}

// p4Dropping: the "eventually safe" constructors drop a notification that arrives while another one is being delivered.
// No operator of the library is built with them; one that is loses values under concurrent emission (C04) and, for an
// instrumentation wrapper, changes what the subscriber observes (C19 through the plugin's property).
func (pc *pCtx) p4Dropping(s *pSite) {
	dropping := strings.Contains(s.Ctor, "EventuallySafe")
	if s.Ctor == "NewObservableWithConcurrencyMode" && s.CtorCall != nil && len(s.CtorCall.Call.Args) > 1 {
		if c, ok := s.CtorCall.Call.Args[1].(*ssa.Const); ok && c.Int64() == 2 {
			dropping = true
		}
	}
	if strings.HasPrefix(s.Name, "New") && strings.Contains(s.Name, "Observable") {
		return // the constructors themselves (NewEventuallySafeObservable wraps the context-aware one)
	}
	_, declared := pc.annotated(s.Name, "dropping")
	pc.add([]string{"C04"}, fmt.Sprintf("P4/%s/constructor-does-not-drop", s.Name),
		"an operator is not built with a constructor that drops the notifications arriving while another one is being delivered (unless the site is declared `dropping`)", !dropping || declared,
		fmt.Sprintf("built with %s", s.Ctor), pc.pos(s.CtorCall.Pos()))
}

func (pc *pCtx) p5Sync(s *pSite) {
	props := []string{"C08"}
	async := false
	var which []string
	for _, c := range s.emitContexts() {
		if c.Kind == "go" || c.Kind == "timer" {
			async = true
			which = append(which, c.Name)
		}
	}
	// emission from a goroutine that subscribes upstream there (ToChannel) or reads a channel
	for _, fn := range s.Closures {
		for _, b := range fn.Blocks {
			for _, ins := range b.Instrs {
				if g, ok := ins.(*ssa.Go); ok {
					for _, cf := range append(s.closuresOfValue(g.Common().Value), func() []*ssa.Function {
						var o []*ssa.Function
						for _, a := range g.Common().Args {
							o = append(o, s.closuresOfValue(a)...)
						}
						return o
					}()...) {
						for _, sub := range closureTree(cf) {
							if s.emitsToDest(sub, map[*ssa.Function]bool{}) {
								async = true
								which = append(which, "goroutine "+s.role(cf))
							}
						}
					}
				}
			}
		}
	}
	_, declared := pc.annotated(s.Name, "handoff")
	ok := !async || declared
	pc.add(props, fmt.Sprintf("P5/%s/synchronous", s.Name),
		"downstream calls are made on the control path of the upstream callback (no goroutine, timer or channel hop) unless the site is a declared hand-off", ok,
		fmt.Sprintf("asynchronous emission from %v", dedup(which)), pc.pos(s.CtorCall.Pos()))
}

// ---------------------------------------------------------------------------
// P6: panic containment of library goroutines (C07); F1: the set of Observable implementors (C01, C02)
// ---------------------------------------------------------------------------

func (pc *pCtx) p6Panics(only string) {
	props := []string{"C07"}
	var paths []string
	for p := range pc.kc.w.ByPath {
		if isRoPkg(p) && !strings.Contains(p, "/examples/") && !strings.HasSuffix(p, "/testing") {
			paths = append(paths, p)
		}
	}
	sort.Strings(paths)
	for _, p := range paths {
		fns := pc.kc.w.allFuncs(p)
		for _, k := range sortedKeys(fns) {
			fn := fns[k]
			if fn.Blocks == nil || strings.HasSuffix(pc.kc.w.Prog.Fset.Position(fn.Pos()).Filename, "_test.go") {
				continue
			}
			if only != "" && !strings.Contains(k, only) {
				continue
			}
			n := 0
			for _, b := range fn.Blocks {
				for _, ins := range b.Instrs {
					g, ok := ins.(*ssa.Go)
					if !ok {
						continue
					}
					n++
					name := k
					if p != roPath {
						name = strings.TrimPrefix(p, roPath+"/") + "." + k
					}
					oname := fmt.Sprintf("P6/%s/go#%d", name, n)
					c := g.Common()
					wrapped := false
					if f := c.StaticCallee(); f != nil && f.Name() == "recoverUnhandledError" {
						wrapped = true
					}
					userCall := ""
					if !wrapped {
						// any interface method call or function-value call inside the goroutine can reach user code:
						// observers' callbacks, teardowns run by a terminal notification or by Add on a closed subscription
						if mc, ok := c.Value.(*ssa.MakeClosure); ok {
							if f, ok := mc.Fn.(*ssa.Function); ok {
								for _, sub := range closureTree(f) {
									if u := callsOutward(sub); u != "" && userCall == "" {
										userCall = u
									}
								}
							}
						} else if f, ok := c.Value.(*ssa.Function); ok {
							for _, sub := range closureTree(f) {
								if u := callsOutward(sub); u != "" && userCall == "" {
									userCall = u
								}
							}
						} else {
							userCall = "an unknown function value"
						}
					}
					if false {
						var cfs []*ssa.Function
						if mc, ok := c.Value.(*ssa.MakeClosure); ok {
							if f, ok := mc.Fn.(*ssa.Function); ok {
								cfs = append(cfs, f)
							}
						}
						if f, ok := c.Value.(*ssa.Function); ok && f.Parent() != nil {
							cfs = append(cfs, f)
						}
						for _, cf := range cfs {
							for _, sub := range closureTree(cf) {
								if u := callsUserFunc(sub); u != "" {
									userCall = u
								}
							}
						}
					}
					ok2 := wrapped || userCall == ""
					pc.add(props, oname, "a goroutine started by the library that can reach a user-supplied function is started through recoverUnhandledError", ok2,
						fmt.Sprintf("the goroutine calls %s without a recover wrapper", userCall), pc.pos(g.Pos()))
				}
			}
		}
	}
}

// callsOutward: fn makes a call that can run code outside the goroutine's own body: an interface method
// (observer, subscription, observable) or a function value.
func callsOutward(fn *ssa.Function) string {
	for _, b := range fn.Blocks {
		for _, ins := range b.Instrs {
			call, ok := ins.(ssa.CallInstruction)
			if !ok {
				continue
			}
			c := call.Common()
			if c.IsInvoke() {
				if c.Method.Pkg() != nil && c.Method.Pkg().Path() == "context" {
					continue
				}
				return "method " + c.Method.Name()
			}
			if _, ok := c.Value.(*ssa.Builtin); ok {
				continue
			}
			if c.StaticCallee() == nil {
				return "a function value"
			}
			// a library function that is handed observers or callbacks runs them
			if f := c.StaticCallee(); isRoPkg(pkgPathOf(f)) && !strings.HasPrefix(f.Name(), "NewNotification") {
				for _, a := range c.Args {
					if _, isFn := a.Type().Underlying().(*types.Signature); isFn {
						return "library function " + f.Name() + " with callbacks"
					}
					if isObserverType(a.Type()) || hasMethod(a.Type(), "Unsubscribe") {
						return "library function " + f.Name() + " with an observer or subscription"
					}
				}
			}
		}
	}
	return ""
}

// callsUserFunc: fn calls a function value that comes from a parameter of an enclosing top-level function.
func callsUserFunc(fn *ssa.Function) string {
	for _, b := range fn.Blocks {
		for _, ins := range b.Instrs {
			call, ok := ins.(ssa.CallInstruction)
			if !ok {
				continue
			}
			c := call.Common()
			if c.IsInvoke() || c.StaticCallee() != nil {
				continue
			}
			if _, ok := c.Value.(*ssa.Builtin); ok {
				continue
			}
			// load of a captured cell / free var / parameter of func type
			v := c.Value
			if u, ok := v.(*ssa.UnOp); ok && u.Op == token.MUL {
				v = u.X
			}
			switch t := v.(type) {
			case *ssa.FreeVar:
				if _, isFn := derefType(t.Type()).Underlying().(*types.Signature); isFn && !isLocalClosureVar(t) {
					return t.Name()
				}
			case *ssa.Parameter:
				return t.Name()
			}
		}
	}
	return ""
}

// isLocalClosureVar: the free variable names a variable of an enclosing function that only ever holds
// function literals written in the library (not a user-supplied function).
func isLocalClosureVar(fv *ssa.FreeVar) bool {
	fn := fv.Parent()
	for p := fn.Parent(); p != nil; p = p.Parent() {
		for _, b := range p.Blocks {
			for _, ins := range b.Instrs {
				if al, ok := ins.(*ssa.Alloc); ok && al.Comment == fv.Name() {
					stores, lits := 0, 0
					for _, r := range *al.Referrers() {
						if st, ok := r.(*ssa.Store); ok && st.Addr == ssa.Value(al) {
							stores++
							if _, ok := st.Val.(*ssa.MakeClosure); ok {
								lits++
							}
							if f, ok := st.Val.(*ssa.Function); ok && f.Parent() != nil {
								lits++
							}
						}
					}
					return stores > 0 && stores == lits
				}
			}
		}
	}
	return false
}

// returnsOperatorOrObservable: the function's result is an Observable or a func(...) Observable (an operator).
func returnsOperatorOrObservable(fn *ssa.Function) bool {
	rs := fn.Signature.Results()
	if rs.Len() != 1 {
		return false
	}
	t := rs.At(0).Type()
	if sig, ok := t.Underlying().(*types.Signature); ok {
		if sig.Results().Len() != 1 {
			return false
		}
		t = sig.Results().At(0).Type()
	}
	return hasMethod(t, "SubscribeWithContext")
}

func derefType(t types.Type) types.Type {
	if p, ok := t.Underlying().(*types.Pointer); ok {
		return p.Elem()
	}
	return t
}

var auditedObservables = map[string]bool{
	"observableImpl": true, "connectableObservableImpl": true,
	"publishSubjectImpl": true, "behaviorSubjectImpl": true, "replaySubjectImpl": true, "asyncSubjectImpl": true, "unicastSubjectImpl": true,
	"websocketSubject": true,
}

func (pc *pCtx) f1Implementors() {
	props := []string{"C01", "C02"}
	var found []string
	for path, p := range pc.kc.w.ByPath {
		if !isRoPkg(path) || p.Types == nil || strings.Contains(path, "/examples/") {
			continue
		}
		sc := p.Types.Scope()
		for _, n := range sc.Names() {
			tn, ok := sc.Lookup(n).(*types.TypeName)
			if !ok {
				continue
			}
			if _, isIface := tn.Type().Underlying().(*types.Interface); isIface {
				continue
			}
			for _, t := range []types.Type{tn.Type(), types.NewPointer(tn.Type())} {
				if hasMethod(t, "SubscribeWithContext") && hasMethod(t, "Subscribe") {
					found = append(found, tn.Name())
					break
				}
			}
		}
	}
	sort.Strings(found)
	found = dedup(found)
	var extra []string
	for _, f := range found {
		if !auditedObservables[f] {
			extra = append(extra, f)
		}
	}
	pc.add(props, "F1/observable-implementors", "every type implementing Observable is one of the audited gate types (observableImpl, the connectable observable, the subjects)", len(extra) == 0,
		fmt.Sprintf("implementors found %v; not audited: %v", found, extra), "")
}


// readOnlyMethods: methods of library types that do not change the receiver (or whose receiver is designed to be shared).
// statefulValueTypes: struct values whose value-receiver methods work on shared mutable state behind a pointer
// (golang.org/x/text/cases.Caser keeps its transformer's buffers: "a Caser may be stateful and should not be shared
// between goroutines").
var statefulValueTypes = map[string]bool{"golang.org/x/text/cases.Caser": true}

var readOnlyTypes = map[string]bool{
	"regexp.Regexp": true, "text/template.Template": true, "html/template.Template": true, "time.Location": true,
	"encoding/base64.Encoding": true, "math/big.Float": false,
}

// p3SharedObjects: a method with a pointer receiver called on an object that lives outside the subscription (handed to the
// constructor, or allocated when the operator was built) may mutate it; every subscription then works on the same
// object. Allowed: synchronisation types, observables / subscriptions, types known to be immutable after construction,
// and sites declared `hot` or `shared <name> : reason`.
func (pc *pCtx) p3SharedObjects(s *pSite) {
	_, hot := pc.annotated(s.Name, "hot")
	sharedDecl, _ := pc.annotated(s.Name, "shared")
	seen := map[string]bool{}
	for _, fn := range s.Closures {
		for _, b := range fn.Blocks {
			for _, ins := range b.Instrs {
				call, ok := ins.(*ssa.Call)
				if !ok || call.Common().IsInvoke() {
					continue
				}
				f := call.Common().StaticCallee()
				if f == nil || f.Signature.Recv() == nil || len(call.Common().Args) == 0 || f.Pkg == nil {
					continue
				}
				pt, isPtr := f.Signature.Recv().Type().Underlying().(*types.Pointer)
				var elemT types.Type
				if isPtr {
					elemT = pt.Elem()
				} else if nt, ok := f.Signature.Recv().Type().(*types.Named); ok && nt.Obj().Pkg() != nil && statefulValueTypes[nt.Obj().Pkg().Path()+"."+nt.Obj().Name()] {
					// a value type that carries a pointer to mutable state: its value-receiver methods mutate what copies share
					elemT = nt
				} else {
					continue
				}
				if isRoPkg(pkgPathOf(f)) || isSyncType(elemT) {
					continue
				}
				named, _ := elemT.(*types.Named)
				tname := ""
				if named != nil && named.Obj().Pkg() != nil {
					tname = named.Obj().Pkg().Path() + "." + named.Obj().Name()
				}
				if readOnlyTypes[tname] {
					continue
				}
				// where does the receiver live?
				recv := call.Common().Args[0]
				root := s.root(stripLoad(recv))
				outside := false
				what := ""
				switch t := root.(type) {
				case *ssa.Alloc:
					outside = !s.InTree[t.Parent()]
					what = cellName(t)
				}
				// (an object handed to the constructor, or a global such as os.Stdout, is the caller's resource: a reader,
				// a writer, a limiter - sharing it between subscriptions is what the caller asked for)
				if al, ok := root.(*ssa.Alloc); ok && outside {
					// a cell that merely holds a constructor parameter is the caller's object as well
					for _, r := range *al.Referrers() {
						if st, ok := r.(*ssa.Store); ok && st.Addr == ssa.Value(al) {
							if _, isParam := st.Val.(*ssa.Parameter); isParam {
								outside = false
							}
						}
					}
				}
				if !outside {
					continue
				}
				key := what + "." + f.Name()
				if seen[key] {
					continue
				}
				seen[key] = true
				declared := hot || (sharedDecl != "" && strings.Contains(" "+strings.SplitN(sharedDecl, ":", 2)[0]+" ", " "+what+" "))
				pc.add([]string{"C12"}, fmt.Sprintf("P3/%s/shared-object:%s/%s", s.Name, what, f.Name()),
					"a pointer-receiver method of a library type is not called on an object shared by every subscription (allocated when the operator was built or applied) unless the type is immutable after construction or the site declares the object shared", declared,
					fmt.Sprintf("(%s).%s is called on %s, which lives outside the subscription (%s)", tname, f.Name(), what, pc.pos(ins.Pos())), pc.pos(ins.Pos()))
			}
		}
	}
}

// returnsOperator: fn returns a function from Observable to Observable (an operator value that can be applied to several sources).
func returnsOperator(fn *ssa.Function) bool {
	res := fn.Signature.Results()
	if res.Len() != 1 {
		return false
	}
	sig, ok := res.At(0).Type().Underlying().(*types.Signature)
	if !ok || sig.Params().Len() != 1 || sig.Results().Len() != 1 {
		return false
	}
	isObs := func(t types.Type) bool { return namedName(t) == "Observable" || namedName(t) == "ConnectableObservable" }
	return isObs(sig.Params().At(0).Type()) && isObs(sig.Results().At(0).Type())
}

// isParamValue: v is a parameter of fn, possibly through an interface conversion or through the cell a captured
// parameter lives in.
func isParamValue(v ssa.Value, fn *ssa.Function) bool {
	for {
		switch t := v.(type) {
		case *ssa.ChangeInterface:
			v = t.X
			continue
		case *ssa.ChangeType:
			v = t.X
			continue
		case *ssa.MakeInterface:
			v = t.X
			continue
		case *ssa.Parameter:
			return true
		case *ssa.UnOp:
			if t.Op == token.MUL {
				if al, ok := t.X.(*ssa.Alloc); ok {
					for _, p := range fn.Params {
						if p.Name() == al.Comment {
							return true
						}
					}
				}
			}
		}
		return false
	}
}

// stripIface: the value under interface conversions.
func stripIface(v ssa.Value) ssa.Value {
	for {
		switch t := v.(type) {
		case *ssa.ChangeInterface:
			v = t.X
		case *ssa.MakeInterface:
			v = t.X
		case *ssa.ChangeType:
			v = t.X
		default:
			return v
		}
	}
}

// helperSubscribes: a package-level helper that is handed the destination subscribes observers that emit into it -
// directly, or through another helper of the package it passes one of its own parameters to (zipSources ->
// zipAllInnerSubscriptions -> zipInnerSubscription). The second result says the subscription happens in a loop.
func helperSubscribes(callee *ssa.Function, depth int) (subscribes, inLoopSub bool) {
	if depth > 3 {
		return
	}
	for _, cf := range closureTree(callee) {
		for _, cb := range cf.Blocks {
			for _, ci := range cb.Instrs {
				c2, ok := ci.(*ssa.Call)
				if !ok {
					continue
				}
				if c2.Common().IsInvoke() && strings.HasPrefix(c2.Common().Method.Name(), "Subscribe") {
					subscribes = true
					if inLoop(c2) {
						inLoopSub = true
					}
				}
				f2 := c2.Common().StaticCallee()
				if f2 != nil && f2.Origin() != nil {
					f2 = f2.Origin() // an instantiation of a generic helper has no package of its own
				}
				if f2 == nil || f2 == callee || f2.Pkg == nil || f2.Pkg != callee.Pkg || f2.Blocks == nil || f2.Parent() != nil || f2.Signature.Recv() != nil {
					continue
				}
				handsOn := false
				for _, a := range c2.Common().Args {
					if isParamValue(a, callee) && (hasMethod(a.Type(), "NextWithContext") || hasMethod(a.Type(), "ErrorWithContext") || hasMethod(stripIface(a).Type(), "NextWithContext")) {
						handsOn = true
					}
				}
				if !handsOn {
					continue
				}
				s2, l2 := helperSubscribes(f2, depth+1)
				if s2 {
					subscribes = true
					if l2 || inLoop(c2) {
						inLoopSub = true
					}
				}
			}
		}
	}
	return
}

// subscribingHelper: the call is to a package-level helper of the operator's own package that subscribes observers
// (directly or through further helpers) and returns one value - a teardown or a subscription - for what it subscribed.
func subscribingHelper(c *ssa.CallCommon, s *pSite) *ssa.Function {
	f := c.StaticCallee()
	if f == nil {
		return nil
	}
	if o := f.Origin(); o != nil {
		f = o
	}
	if f.Blocks == nil || f.Parent() != nil || f.Signature.Recv() != nil || f.Pkg == nil || s.Subscribe.Pkg == nil || f.Pkg != s.Subscribe.Pkg {
		return nil
	}
	res := f.Signature.Results()
	if res.Len() != 1 {
		return nil
	}
	rt := res.At(0).Type()
	isTeardown := false
	if sig, ok := rt.Underlying().(*types.Signature); ok && sig.Params().Len() == 0 && sig.Results().Len() == 0 {
		isTeardown = true
	}
	if !isTeardown && !hasMethod(rt, "Unsubscribe") {
		return nil
	}
	if observableCtors[f.Name()] || hasMethod(rt, "SubscribeWithContext") {
		return nil
	}
	if subs, _ := helperSubscribes(f, 0); !subs {
		return nil
	}
	return f
}

// registeringHelper: the call is to a package-level helper of the operator's own package that subscribes observers and
// has no result, and one of its arguments is a Subscription (the composite it registers them with). Returns the helper
// and that argument.
func registeringHelper(c *ssa.CallCommon, s *pSite) (*ssa.Function, ssa.Value) {
	f := c.StaticCallee()
	if f == nil {
		return nil, nil
	}
	if o := f.Origin(); o != nil {
		f = o
	}
	if f.Blocks == nil || f.Parent() != nil || f.Signature.Recv() != nil || f.Pkg == nil || s.Subscribe.Pkg == nil || f.Pkg != s.Subscribe.Pkg {
		return nil, nil
	}
	if f.Signature.Results().Len() != 0 {
		return nil, nil
	}
	var comp ssa.Value
	for _, a := range c.Args {
		if hasMethod(a.Type(), "AddUnsubscribable") && hasMethod(a.Type(), "Unsubscribe") && !hasMethod(a.Type(), "NextWithContext") {
			comp = a
		}
	}
	if comp == nil {
		return nil, nil
	}
	if subs, _ := helperSubscribes(f, 0); !subs {
		return nil, nil
	}
	return f, comp
}
