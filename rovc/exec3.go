package main

import (
	"os"
	"fmt"
	"go/token"
	"go/types"
	"strings"

	"golang.org/x/tools/go/ssa"
)

func pkgPathOf(fn *ssa.Function) string {
	if fn == nil {
		return ""
	}
	if fn.Pkg != nil {
		return fn.Pkg.Pkg.Path()
	}
	if o := fn.Origin(); o != nil && o.Pkg != nil {
		return o.Pkg.Pkg.Path()
	}
	if fn.Object() != nil && fn.Object().Pkg() != nil {
		return fn.Object().Pkg().Path()
	}
	return ""
}

func recvTypeName(fn *ssa.Function) string {
	if fn.Signature.Recv() == nil {
		return ""
	}
	rt := fn.Signature.Recv().Type()
	if p, ok := rt.(*types.Pointer); ok {
		rt = p.Elem()
	}
	if n, ok := rt.(*types.Named); ok {
		return n.Obj().Name()
	}
	return rt.String()
}

var lockMethods = map[string]string{"Lock": "lock", "Unlock": "unlock", "TryLock": "trylock", "RLock": "lock", "RUnlock": "unlock", "TryRLock": "trylock"}

func isLockType(t types.Type) bool {
	if p, ok := t.(*types.Pointer); ok {
		t = p.Elem()
	}
	n, ok := t.(*types.Named)
	if !ok || n.Obj().Pkg() == nil {
		return false
	}
	p := n.Obj().Pkg().Path()
	name := n.Obj().Name()
	if p == "sync" && (name == "Mutex" || name == "RWMutex" || name == "Locker") {
		return true
	}
	if strings.HasSuffix(p, "internal/xsync") {
		return true
	}
	return false
}

func (x *Exec) call(st *State, ins *ssa.Call, c *ssa.CallCommon, k Cont) {
	pos := c.Pos()
	var args []SVal
	for _, a := range c.Args {
		args = append(args, x.val(st, a))
	}
	if st.Err != "" {
		k(st, Exit{Kind: ExitStop})
		return
	}
	if c.IsInvoke() {
		recv := x.val(st, c.Value)
		x.invoke(st, recv, c.Value.Type(), c.Method.Name(), c.Signature(), args, pos, k)
		return
	}
	switch callee := c.Value.(type) {
	case *ssa.Builtin:
		x.builtin(st, callee, c, args, pos, k)
		return
	case *ssa.Function:
		x.static(st, callee, c, args, pos, k)
		return
	}
	fv := x.val(st, c.Value)
	x.callValue(st, fv, c.Signature(), args, pos, k)
}

// callValue calls a function value.
func (x *Exec) callValue(st *State, fv SVal, sig *types.Signature, args []SVal, pos token.Pos, k Cont) {
	switch fv.K {
	case KClosure:
		x.run(st, fv.Fn, args, fv.Binds, k)
		return
	case KBound:
		recvT := types.Type(nil)
		if fv.Recv.GoT != nil {
			recvT = fv.Recv.GoT
		}
		x.invoke(st, *fv.Recv, recvT, fv.Method, sig, args, pos, k)
		return
	case KFn:
		x.static(st, fv.Fn, nil, args, pos, k)
		return
	}
	name := provName(fv)
	if strings.HasPrefix(name, "global:") {
		// package-level hook variable
		ev := Event{Name: "hook:" + strings.TrimPrefix(name, "global:"), Args: args, Pos: pos}
		res := x.freshResults(st, "hook!"+strings.TrimPrefix(name, "global:"), sig)
		ev.Res = res
		x.event(st, ev)
		k(st, Exit{Kind: ExitReturn, Results: res})
		return
	}
	// user-supplied function: uninterpreted, functional in its arguments
	short := x.shortName(name)
	// a nil user-supplied function is a caller error: the resulting panic is contained by the observer
	// (layer K), so no obligation is raised here
	var res []SVal
	var ats, asorts []string
	for _, a := range args {
		ats = append(ats, x.termOf(st, a))
		asorts = append(asorts, x.sortOfVal(a))
	}
	rs := sig.Results()
	for i := 0; i < rs.Len(); i++ {
		t := x.D.app(fmt.Sprintf("%s!%d", short, i), ats, asorts, sortOf(rs.At(i).Type()))
		if isContextType(rs.At(i).Type()) || hasMethod(rs.At(i).Type(), "SubscribeWithContext") {
			// T5: a context-aware user callback returns a (derived) non-nil context; a user-supplied factory
			// or projection returns an observable / subject, not nil
			st.assume(not(eq(t, "nil")))
		}
		rv := x.unbox(st, t, rs.At(i).Type())
		if rv.K == KU && rv.Src == "" {
			rv.Src = short + "()" // calls on the value a user function returned are named after it: finally().SubscribeWithContext
		}
		res = append(res, rv)
	}
	ev := Event{Name: "callfn:" + short, Args: args, Res: res, Pos: pos}
	if x.PanicForks {
		st2 := st.clone()
		x.event(st2, Event{Name: "callfn:" + short, Args: args, Pos: pos})
		pv := mkU(q(x.D.fresh("panic@"+short, "U")))
		st2.Named["panicked("+short+")"] = "true"
		st2.Named["panicval("+short+")"] = pv.T
		st2.Named["sort:panicval("+short+")"] = "U"
		k2 := k
		x.Paths++
		// the normal outcome first
		x.event(st, ev)
		k(st, Exit{Kind: ExitReturn, Results: res})
		k2(st2, Exit{Kind: ExitPanic, Panic: pv})
		return
	}
	x.event(st, ev)
	k(st, Exit{Kind: ExitReturn, Results: res})
}

func (x *Exec) freshResults(st *State, name string, sig *types.Signature) []SVal {
	var res []SVal
	if sig == nil {
		return nil
	}
	rs := sig.Results()
	for i := 0; i < rs.Len(); i++ {
		res = append(res, x.symbolic(st, x.D.fresh(name, "U")+"r", rs.At(i).Type()))
	}
	return res
}

func (x *Exec) invoke(st *State, recv SVal, recvT types.Type, method string, sig *types.Signature, args []SVal, pos token.Pos, k Cont) {
	name := x.shortName(provName(recv))
	if op, ok := lockMethods[method]; ok && (recvT == nil || isLockType(recvT) || true) && len(args) == 0 {
		x.lockOp(st, op, name, pos, k)
		return
	}
	ev := Event{Name: name + "." + method, Args: args, Pos: pos}
	res := x.freshResults(st, name+"."+method, sig)
	if (method == "SubscribeWithContext" || method == "Subscribe") && len(res) == 1 && res[0].K == KU {
		// interface contract of Observable: the returned Subscription is never nil
		st.assume(not(eq(res[0].T, "nil")))
	}
	if method == "Read" && len(args) == 1 && args[0].K == KSlice && len(res) == 2 && res[0].K == KInt {
		// assumed contract of io.Reader (T4): 0 <= n <= len(p)
		st.assume("(>= " + res[0].T + " 0)")
		st.assume("(<= " + res[0].T + " " + args[0].Len + ")")
	}
	for i := range res {
		if res[i].K == KU {
			res[i].Src = name + "." + method + "()"
		}
	}
	ev.Res = res
	x.event(st, ev)
	k(st, Exit{Kind: ExitReturn, Results: res})
}

func (x *Exec) lockOp(st *State, op, lock string, pos token.Pos, k Cont) {
	switch op {
	case "lock":
		if st.Held[lock] {
			x.obl(st, "lock/relock:"+lock, "false", "lock acquired while already held", pos)
		}
		if x.H.OnLock != nil {
			x.H.OnLock(x, st, lock, pos)
		}
		st.Held[lock] = true
		x.event(st, Event{Name: "lock:" + lock, Pos: pos})
		k(st, Exit{Kind: ExitReturn})
	case "unlock":
		if !st.Held[lock] {
			x.obl(st, "lock/unlock-unheld:"+lock, "false", "unlock of a lock not held", pos)
		}
		if x.H.OnUnlock != nil {
			x.H.OnUnlock(x, st, lock, pos)
		}
		delete(st.Held, lock)
		x.event(st, Event{Name: "unlock:" + lock, Pos: pos})
		k(st, Exit{Kind: ExitReturn})
	case "trylock":
		st2 := st.clone()
		x.Paths++
		if x.H.OnLock != nil {
			x.H.OnLock(x, st, lock, pos)
		}
		st.Held[lock] = true
		st.Named["trylock("+lock+")"] = "true"
		x.event(st, Event{Name: "trylock:" + lock, Pos: pos})
		k(st, Exit{Kind: ExitReturn, Results: []SVal{mkBool("true")}})
		st2.Named["trylock("+lock+")"] = "false"
		x.event(st2, Event{Name: "trylock:" + lock, Pos: pos})
		k(st2, Exit{Kind: ExitReturn, Results: []SVal{mkBool("false")}})
	}
}

func (x *Exec) builtin(st *State, b *ssa.Builtin, c *ssa.CallCommon, args []SVal, pos token.Pos, k Cont) {
	ret := func(vs ...SVal) { k(st, Exit{Kind: ExitReturn, Results: vs}) }
	switch b.Name() {
	case "len":
		a := args[0]
		switch a.K {
		case KSlice:
			ret(mkInt(a.Len))
		case KMap:
			ret(mkInt(x.D.app("len!map", []string{x.termOf(st, a)}, []string{"U"}, "Int")))
		default:
			t := x.D.app("len!str", []string{x.termOf(st, a)}, []string{"U"}, "Int")
			st.assume("(>= " + t + " 0)")
			ret(mkInt(t))
		}
	case "cap":
		if args[0].K == KSlice {
			ret(mkInt(args[0].Cap))
		} else {
			ret(mkInt(q(x.D.fresh("cap", "Int"))))
		}
	case "append":
		x.appendBuiltin(st, c, args, pos, k)
	case "copy":
		// copy(dst, src): overwrite dst's array with an unknown array agreeing outside is not tracked: havoc dst array
		if args[0].K == KSlice {
			es := x.elemSort(args[0])
			if args[1].K == KSlice {
				dst, src := args[0], args[1]
				da, sa := x.arrTerm(st, dst), x.arrTerm(st, src)
				nu := x.D.fresh("arr@copy", "(Array Int "+es+")")
				n := q(x.D.fresh("copied", "Int"))
				st.assume(eq(n, ite("(< "+dst.Len+" "+src.Len+")", dst.Len, src.Len)))
				// pointwise fact as a quantified axiom (array property fragment)
				st.assume(fmt.Sprintf("(forall ((j Int)) (= (select %s j) (ite (and (>= j %s) (< j (+ %s %s))) (select %s (+ (- j %s) %s)) (select %s j))))", q(nu), dst.Off, dst.Off, n, sa, dst.Off, src.Off, da))
				st.Heap[dst.Loc] = SVal{K: KU, T: q(nu)}
				st.Written[dst.Loc] = true
				ret(mkInt(n))
				return
			}
			nu := x.D.fresh("arr@copy", "(Array Int "+es+")")
			st.Heap[args[0].Loc] = SVal{K: KU, T: q(nu)}
			st.Written[args[0].Loc] = true
		}
		ret(mkInt(q(x.D.fresh("copied", "Int"))))
	case "close":
		x.event(st, Event{Name: "chclose:" + provName(args[0]), Args: args, Pos: pos})
		ret()
	case "delete":
		if args[0].K == KMap {
			mt, _ := isMap(args[0].GoT)
			vs := "U"
			if mt != nil {
				vs = sortOf(mt.Elem())
			}
			has, _ := x.mapArrays(st, args[0], vs)
			st.Heap[args[0].Loc+"#has"] = SVal{K: KU, T: "(store " + has + " " + x.keyTerm(st, args[1]) + " false)"}
			st.Written[args[0].Loc+"#has"] = true
		}
		ret()
	case "print", "println":
		ret()
	case "recover":
		ret(mkU(q(x.D.fresh("recovered", "U"))))
	case "min", "max":
		if len(args) == 2 && args[0].K == KInt {
			op := "<"
			if b.Name() == "max" {
				op = ">"
			}
			ret(mkInt(ite("("+op+" "+args[0].T+" "+args[1].T+")", args[0].T, args[1].T)))
			return
		}
		x.unsupp(st, "builtin %s on non-int", b.Name())
		ret(mkU("nil"))
	case "ssa:wrapnilchk":
		ret(args[0])
	default:
		x.unsupp(st, "builtin %s", b.Name())
		ret(mkU("nil"))
	}
}

// appendBuiltin models append(s, t...) with explicit aliasing: in place when len < cap, otherwise a fresh array.
func (x *Exec) appendBuiltin(st *State, c *ssa.CallCommon, args []SVal, pos token.Pos, k Cont) {
	s, t := args[0], args[1]
	var rt types.Type
	if c != nil {
		rt = c.Args[0].Type()
	}
	if s.K == KU && s.T == "nil" {
		s = SVal{K: KSlice, Loc: "arr!nil", Off: "0", Len: "0", Cap: "0", GoT: rt}
	}
	if s.K != KSlice {
		x.unsupp(st, "append to %v", s.K)
		k(st, Exit{Kind: ExitStop})
		return
	}
	if s.GoT == nil {
		s.GoT = rt
	}
	es := x.elemSort(s)
	if t.K == KU {
		// append([]byte, string...) or nil
		if t.T == "nil" {
			k(st, Exit{Kind: ExitReturn, Results: []SVal{s}})
			return
		}
		ln := x.D.app("len!str", []string{t.T}, []string{"U"}, "Int")
		st.assume("(>= " + ln + " 0)")
		nu := x.D.fresh("arr@append", "(Array Int "+es+")")
		st.Heap[nu] = SVal{K: KU, T: q(nu)}
		k(st, Exit{Kind: ExitReturn, Results: []SVal{{K: KSlice, Loc: nu, Off: "0", Len: plus(s.Len, ln), Cap: plus(s.Len, ln), GoT: s.GoT}}})
		return
	}
	if t.K != KSlice {
		x.unsupp(st, "append of %v", t.K)
		k(st, Exit{Kind: ExitStop})
		return
	}
	n := int64(-1)
	if isLit(t.Len) {
		fmt.Sscan(t.Len, &n)
	}
	sa := x.arrTerm(st, s)
	ta := x.arrTerm(st, t)
	if n == 0 {
		k(st, Exit{Kind: ExitReturn, Results: []SVal{s}})
		return
	}
	newLen := plus(s.Len, t.Len)
	write := func(st *State, base string, off string) string {
		if n >= 0 && n <= 8 {
			arr := base
			for j := int64(0); j < n; j++ {
				arr = fmt.Sprintf("(store %s %s (select %s %s))", arr, plus(plus(off, s.Len), fmt.Sprint(j)), ta, plus(t.Off, fmt.Sprint(j)))
			}
			return arr
		}
		nu := x.D.fresh("arr@append", "(Array Int "+es+")")
		st.assume(fmt.Sprintf("(forall ((j Int)) (= (select %s j) (ite (and (>= j (+ %s %s)) (< j (+ %s %s))) (select %s (+ (- j (+ %s %s)) %s)) (select %s j))))",
			q(nu), off, s.Len, off, newLen, ta, off, s.Len, t.Off, base))
		return q(nu)
	}
	fits := "(<= " + newLen + " " + s.Cap + ")"
	// in place
	st2 := st.clone()
	x.Paths++
	if s.Loc != "arr!nil" {
		st.assume(fits)
		st.Heap[s.Loc] = SVal{K: KU, T: write(st, sa, s.Off)}
		st.Written[s.Loc] = true
		k(st, Exit{Kind: ExitReturn, Results: []SVal{{K: KSlice, Loc: s.Loc, Off: s.Off, Len: newLen, Cap: s.Cap, GoT: s.GoT}}})
	}
	// reallocation: fresh array, contents copied (offset kept so that indices need no shifting)
	if s.Loc != "arr!nil" {
		st2.assume(not(fits))
	}
	nu := x.D.fresh("arr@grown", "(Array Int "+es+")")
	ncap := q(x.D.fresh("cap", "Int"))
	st2.assume("(>= " + ncap + " " + newLen + ")")
	st2.Heap[nu] = SVal{K: KU, T: write(st2, sa, s.Off)}
	st2.Written[nu] = true
	k(st2, Exit{Kind: ExitReturn, Results: []SVal{{K: KSlice, Loc: nu, Off: s.Off, Len: newLen, Cap: ncap, GoT: s.GoT}}})
}

func (x *Exec) static(st *State, fn *ssa.Function, c *ssa.CallCommon, args []SVal, pos token.Pos, k Cont) {
	if o := fn.Origin(); o != nil {
		fn = o // calls inside generic bodies name an instantiation; contracts bind to the generic function
	}
	pkg := pkgPathOf(fn)
	name := fn.Name()
	ret := func(vs ...SVal) { k(st, Exit{Kind: ExitReturn, Results: vs}) }
	switch {
	case pkg == "sync/atomic":
		x.atomicOp(st, fn, args, pos, k)
		return
	case (pkg == "sync" || strings.HasSuffix(pkg, "internal/xsync")) && fn.Signature.Recv() != nil && lockMethods[name] != "" && len(args) == 1:
		lock := x.shortName(provName(args[0]))
		if args[0].K == KLoc {
			lock = x.shortName(args[0].Loc)
		}
		x.lockOp(st, lockMethods[name], lock, pos, k)
		return
	case pkg == "sync" && recvTypeName(fn) == "Map" && len(args) >= 1:
		x.syncMap(st, fn, args, pos, k)
		return
	case pkg == "github.com/samber/lo" && (name == "TryCatchWithErrorValue" || strings.HasPrefix(name, "TryCatchWithErrorValue")):
		x.tryCatch(st, args, pos, k)
		return
	case pkg == "github.com/samber/lo" && len(name) == 2 && name[0] == 'T' && name[1] >= '2' && name[1] <= '9' && fn.Signature.Results().Len() == 1:
		// lo.T2(a, b) ... lo.T9: tuple constructors (assumed contract: field i holds argument i)
		rt := fn.Signature.Results().At(0).Type()
		if c != nil && c.Signature() != nil && c.Signature().Results().Len() == 1 {
			rt = c.Signature().Results().At(0).Type()
		}
		elems := make([]SVal, len(args))
		copy(elems, args)
		for i := range elems {
			elems[i].Src = ""
		}
		ret(SVal{K: KStruct, Elems: elems, GoT: rt})
		return
	case pkg == "time" && recvTypeName(fn) == "Duration" && len(args) == 1 && args[0].K == KInt && (name == "Nanoseconds" || name == "Microseconds" || name == "Milliseconds"):
		// assumed contract of package time: a Duration is its count of nanoseconds (T4)
		t := args[0].T
		switch name {
		case "Microseconds":
			t = "(div " + t + " 1000)"
		case "Milliseconds":
			t = "(div " + t + " 1000000)"
		}
		ret(SVal{K: KInt, T: t, GoT: fn.Signature.Results().At(0).Type()})
		return
	case pkg == "context" && (name == "Background" || name == "TODO"):
		bg := q(x.D.constOf("ctx!"+name, "U"))
		st.assume(not(eq(bg, "nil"))) // assumed contract of package context: Background and TODO are never nil
		ret(SVal{K: KU, T: bg, GoT: fn.Signature.Results().At(0).Type(), Src: "context." + name})
		return
	case pkg == "context" && (name == "WithTimeout" || name == "WithDeadline" || name == "WithCancel") && fn.Signature.Results().Len() == 2:
		// assumed contract of package context (T4): a derived, non-nil context, a function of the parent (and the duration / deadline)
		var ats, asorts []string
		for _, a := range args {
			ats = append(ats, x.termOf(st, a))
			asorts = append(asorts, x.sortOfVal(a))
		}
		t := x.D.app("ctx_"+name, ats, asorts, "U")
		st.assume(not(eq(t, "nil")))
		cancel := x.symbolic(st, x.D.fresh("cancel", "U")+"f", fn.Signature.Results().At(1).Type())
		ret(SVal{K: KU, T: t, GoT: fn.Signature.Results().At(0).Type()}, cancel)
		return
	case pkg == "context" && name == "WithValue":
		t := x.D.app("ctx_WithValue", []string{x.termOf(st, args[0]), x.termOf(st, args[1]), x.termOf(st, args[2])}, []string{"U", "U", "U"}, "U")
		st.assume(not(eq(t, "nil")))
		ret(SVal{K: KU, T: t, GoT: fn.Signature.Results().At(0).Type()})
		return
	}
	var spec *CalleeSpec
	if x.H.Callee != nil {
		spec = x.H.Callee(fn)
	}
	if spec != nil && spec.Inline {
		x.run(st, fn, args, nil, k)
		return
	}
	if spec != nil && spec.Unsupported != "" {
		x.unsupp(st, "%s", spec.Unsupported)
		k(st, Exit{Kind: ExitStop})
		return
	}
	sig := fn.Signature
	short := fn.Name()
	if fn.Signature.Recv() != nil {
		short = recvTypeName(fn) + "." + fn.Name()
	}
	if spec != nil && spec.Pure != "" {
		var ats, asorts []string
		for _, a := range args {
			ats = append(ats, x.termOf(st, a))
			asorts = append(asorts, x.sortOfVal(a))
		}
		var res []SVal
		for i := 0; i < sig.Results().Len(); i++ {
			nm := spec.Pure
			if sig.Results().Len() > 1 {
				nm = fmt.Sprintf("%s!%d", spec.Pure, i)
			}
			t := x.D.app(nm, ats, asorts, sortOf(sig.Results().At(i).Type()))
			res = append(res, x.unbox(st, t, sig.Results().At(i).Type()))
		}
		if spec.Post != nil {
			spec.Post(x, st, args, res)
		}
		ret(res...)
		return
	}
	evName := "call:" + short
	if spec != nil && spec.Event != "" {
		evName = spec.Event
	}
	// the event records the slices as they were handed over (before the callee may have written them)
	for i := range args {
		if args[i].K == KSlice && args[i].Snap == "" && args[i].Loc != "arr!nil" {
			if _, ok := st.Heap[args[i].Loc]; ok {
				args[i].Snap = x.arrTerm(st, args[i])
			}
		}
	}
	// an unknown callee that is handed a slice may write its elements (sort.Slice, io.Reader.Read, copy helpers)
	readOnly := pkg != "" && isRoPkg(pkg) && fn.Blocks != nil && !mayWriteSliceParams(fn) // a library function that only reads the slices it is given
	if (spec == nil || spec.Modular == nil) && !readOnly {
		for _, a := range args {
			if a.K == KSlice && a.Loc != "arr!nil" {
				if _, ok := st.Heap[a.Loc]; ok {
					es := x.elemSort(a)
					st.Heap[a.Loc] = SVal{K: KU, T: q(x.D.fresh("arr@after:"+short, "(Array Int "+es+")"))}
					st.Written[a.Loc] = true
				}
			}
		}
	}
	res := x.freshResults(st, short, sig)
	for i := range res {
		if res[i].K == KU {
			res[i].Src = fn.Name() + "()"
		}
	}
	if spec != nil {
		for _, h := range spec.Havoc {
			for key, old := range st.Heap {
				if strings.HasPrefix(key, h) {
					st.Heap[key] = x.freshLike(st, key+"@havoc", old, old.GoT)
				}
			}
		}
		if spec.Post != nil {
			spec.Post(x, st, args, res)
		}
	}
	ev := Event{Name: evName, Args: args, Res: res, Pos: pos}
	if spec != nil && spec.MayPanic && x.PanicForks {
		st2 := st.clone()
		x.Paths++
		x.event(st2, Event{Name: evName, Args: args, Pos: pos})
		x.event(st, ev)
		k(st, Exit{Kind: ExitReturn, Results: res})
		k(st2, Exit{Kind: ExitPanic, Panic: mkU(q(x.D.fresh("panic@"+short, "U")))})
		return
	}
	x.event(st, ev)
	ret(res...)
}

// syncMap models sync.Map (internally synchronised): Store/Load/Delete/... are events on the map named after
// the field or cell holding it; Range(f) is the event <m>.Range, then f executed once for a generic element
// (fresh key and value), then <m>.RangeEnd. The generic iteration stands for "for every element": it is only
// faithful for bodies that do not accumulate state across iterations (checked: the body may not write cells).
func (x *Exec) syncMap(st *State, fn *ssa.Function, args []SVal, pos token.Pos, k Cont) {
	m := x.shortName(provName(args[0]))
	if args[0].K == KLoc {
		m = x.shortName(args[0].Loc)
	}
	name := fn.Name()
	rest := args[1:]
	if name != "Range" {
		res := x.freshResults(st, m+"."+name, fn.Signature)
		if (name == "Load" || name == "LoadOrStore" || name == "LoadAndDelete") && len(res) > 0 {
			res[0].Src = "elem" // an element of the map: its type is the map's element invariant
		}
		x.event(st, Event{Name: m + "." + name, Args: rest, Res: res, Pos: pos})
		k(st, Exit{Kind: ExitReturn, Results: res})
		return
	}
	x.event(st, Event{Name: m + ".Range", Pos: pos})
	f := rest[0]
	if f.K != KClosure && f.K != KFn {
		x.unsupp(st, "sync.Map.Range with a non-literal function")
		k(st, Exit{Kind: ExitStop})
		return
	}
	key := mkU(q(x.D.fresh(m+"@key", "U")))
	val := mkU(q(x.D.fresh(m+"@elem", "U")))
	val.Src = "elem"
	key.Src = "key"
	before := map[string]bool{}
	for w := range st.Written {
		before[w] = true
	}
	nev := len(st.Events)
	x.run(st, f.Fn, []SVal{key, val}, f.Binds, func(st2 *State, ex Exit) {
		if ex.Kind != ExitReturn {
			k(st2, ex)
			return
		}
		// a body that hands something to the element it visits (a broadcast) goes on to the next element: the
		// abstraction runs it for one generic element, so "every observer is visited" is the callback answering true
		delivers := false
		for _, ev := range st2.Events[min(nev, len(st2.Events)):] {
			if strings.HasPrefix(ev.Name, "elem.") || ev.Name == m+".Delete" {
				delivers = true // (or removes it: unsubscribeAll empties the map only if it goes on after the first entry)
			}
		}
		if delivers && len(ex.Results) == 1 && ex.Results[0].K == KBool {
			x.obl(st2, "broadcast/visits-every-element", ex.Results[0].T, "a sync.Map.Range callback that delivers to the element it visits returns true (goes on to the next one)", pos)
		}
		for w := range st2.Written {
			if !before[w] && !strings.HasPrefix(w, "new#") && !strings.HasPrefix(w, "arr@") {
				x.unsupp(st2, "sync.Map.Range body writes %s: the generic-iteration abstraction does not apply", w)
			}
		}
		x.event(st2, Event{Name: m + ".RangeEnd", Pos: pos})
		k(st2, Exit{Kind: ExitReturn})
	})
}

// tryCatch models lo.TryCatchWithErrorValue(try, catch): run try; if it panics with p (or returns a
// non-nil error e) run catch(p) (catch(e)); the construct itself only panics when catch does.
func (x *Exec) tryCatch(st *State, args []SVal, pos token.Pos, k Cont) {
	try, catch := args[0], args[1]
	isFn := func(v SVal) bool { return (v.K == KClosure || v.K == KFn) && v.Fn != nil && v.Fn.Blocks != nil }
	if !isFn(try) || !isFn(catch) {
		x.unsupp(st, "TryCatchWithErrorValue with non-literal closures")
		k(st, Exit{Kind: ExitStop})
		return
	}
	x.run(st, try.Fn, nil, try.Binds, func(st2 *State, ex Exit) {
		switch ex.Kind {
		case ExitStop:
			k(st2, ex)
		case ExitPanic:
			st2.Named["caught"] = "true"
			x.run(st2, catch.Fn, []SVal{ex.Panic}, catch.Binds, func(st3 *State, ex3 Exit) {
				if ex3.Kind == ExitReturn {
					k(st3, Exit{Kind: ExitReturn})
					return
				}
				k(st3, ex3)
			})
		case ExitReturn:
			if len(ex.Results) == 1 {
				r := ex.Results[0]
				isNil := x.valEq(st2, r, mkU("nil"))
				if isNil == "true" {
					k(st2, Exit{Kind: ExitReturn})
					return
				}
				st3 := st2.clone()
				x.Paths++
				st2.assume(isNil)
				k(st2, Exit{Kind: ExitReturn})
				st3.assume(not(isNil))
				x.run(st3, catch.Fn, []SVal{r}, catch.Binds, func(st4 *State, ex4 Exit) {
					if ex4.Kind == ExitReturn {
						k(st4, Exit{Kind: ExitReturn})
						return
					}
					k(st4, ex4)
				})
				return
			}
			k(st2, Exit{Kind: ExitReturn})
		}
	})
}

// yield applies the declared rely of an atomic location before it is observed.
func (x *Exec) yield(st *State, key string, t types.Type) SVal {
	cur := x.load(st, key, t, token.NoPos)
	if x.H.AtomicRely == nil {
		return cur
	}
	nu := x.freshLike(st, x.shortName(key)+"@y", cur, t)
	rely := x.H.AtomicRely(key, x.termOf(st, cur), x.termOf(st, nu))
	if rely == "" {
		return cur
	}
	st.assume(rely)
	nu.Src = key
	st.Heap[key] = nu
	return nu
}

func (x *Exec) atomicOp(st *State, fn *ssa.Function, args []SVal, pos token.Pos, k Cont) {
	name := fn.Name()
	ret := func(vs ...SVal) { k(st, Exit{Kind: ExitReturn, Results: vs}) }
	if fn.Signature.Recv() != nil {
		// methods of atomic.Int32 / Bool / Value / Pointer[T]: receiver is the location
		name = recvTypeName(fn) + "." + name
	}
	if len(args) == 0 || args[0].K != KLoc {
		x.unsupp(st, "atomic op %s on untracked address", name)
		k(st, Exit{Kind: ExitStop})
		return
	}
	key := args[0].Loc
	short := x.shortName(key)
	if os.Getenv("ROVC_DEBUG") != "" {
		fmt.Fprintf(os.Stderr, "ATOMIC-OP %s key=%s hook=%v\n", name, key, x.H.AtomicWrite != nil)
	}
	var vt types.Type
	if fn.Signature.Recv() == nil && fn.Signature.Params().Len() > 0 {
		if pt, ok := fn.Signature.Params().At(0).Type().Underlying().(*types.Pointer); ok {
			vt = pt.Elem()
		}
	}
	if fn.Signature.Recv() != nil {
		// value type: from method results or args
		if fn.Signature.Results().Len() > 0 {
			vt = fn.Signature.Results().At(0).Type()
		} else if fn.Signature.Params().Len() > 0 {
			vt = fn.Signature.Params().At(0).Type()
		}
		if strings.HasSuffix(name, "CompareAndSwap") && fn.Signature.Params().Len() > 0 {
			vt = fn.Signature.Params().At(0).Type()
		}
		key = key + ".v"
	}
	if x.H.FieldAccess != nil {
		x.H.FieldAccess(x, st, "atomic:"+key, false, nil, pos)
	}
	op := name
	if i := strings.LastIndex(op, "."); i >= 0 {
		op = op[i+1:]
	}
	switch {
	case strings.HasPrefix(op, "Load"):
		cur := x.yield(st, key, vt)
		st.Named["loaded("+short+")"] = x.termOf(st, cur)
		st.NamedV["loaded("+short+")"] = cur // with its sort (a pointer or interface is not an integer)
		ret(cur)
	case strings.HasPrefix(op, "Store"):
		cur := x.yield(st, key, vt)
		nu := args[len(args)-1]
		if x.H.AtomicWrite != nil {
			x.H.AtomicWrite(x, st, key, x.termOf(st, cur), x.termOf(st, nu), pos)
		}
		nu.Src = ""
		st.Heap[key] = nu
		st.Written[key] = true
		st.Named["stored("+short+")"] = "true"
		ret()
	case strings.HasPrefix(op, "Add"):
		cur := x.yield(st, key, vt)
		d := args[len(args)-1]
		nu := SVal{K: KInt, T: "(+ " + cur.T + " " + d.T + ")", GoT: vt}
		if x.H.AtomicWrite != nil {
			x.H.AtomicWrite(x, st, key, cur.T, nu.T, pos)
		}
		st.Heap[key] = nu
		st.Written[key] = true
		ret(nu)
	case strings.HasPrefix(op, "Swap"):
		cur := x.yield(st, key, vt)
		nu := args[len(args)-1]
		if x.H.AtomicWrite != nil {
			x.H.AtomicWrite(x, st, key, x.termOf(st, cur), x.termOf(st, nu), pos)
		}
		nu.Src = ""
		st.Heap[key] = nu
		st.Written[key] = true
		ret(cur)
	case strings.HasPrefix(op, "CompareAndSwap"):
		cur := x.yield(st, key, vt)
		o, n := args[len(args)-2], args[len(args)-1]
		same := x.valEq(st, cur, o)
		st2 := st.clone()
		x.Paths++
		// success
		st.assume(same)
		if x.H.AtomicWrite != nil {
			x.H.AtomicWrite(x, st, key, x.termOf(st, o), x.termOf(st, n), pos)
		}
		n.Src = ""
		st.Heap[key] = n
		st.Written[key] = true
		st.Named["cas_ok("+short+")"] = "true"
		k(st, Exit{Kind: ExitReturn, Results: []SVal{mkBool("true")}})
		// failure
		st2.assume(not(same))
		st2.Named["cas_ok("+short+")"] = "false"
		k(st2, Exit{Kind: ExitReturn, Results: []SVal{mkBool("false")}})
	default:
		x.unsupp(st, "atomic op %s", name)
		k(st, Exit{Kind: ExitStop})
	}
}
