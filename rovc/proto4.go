package main

import (
	"go/ast"
	"fmt"
	"go/token"
	"go/types"
	"sort"
	"strings"

	"golang.org/x/tools/go/ssa"
)

// ---------------------------------------------------------------------------
// P8: no write after delivery, no write through the input (C04, C18)
//
// (a) a slice handed to destination.Next inside a loop must not share its backing array with a buffer that the
//     same loop hands to something that writes it (reader.Read(buf), copy(buf, ...), buf[i] = ...);
// (b) append(x, ...) where x is (a sub-slice of, or the result of a trimming function applied to) a value the
//     function received as a parameter may write into the caller's backing array.
// ---------------------------------------------------------------------------

// sliceBase traces a slice value back through re-slicing and value-preserving conversions.
func sliceBase(v ssa.Value) ssa.Value {
	for i := 0; i < 16; i++ {
		switch t := v.(type) {
		case *ssa.Slice:
			if _, isArr := t.X.(*ssa.Alloc); isArr {
				return t // make([]T, const) is an array allocation sliced once: that slice is the buffer
			}
			v = t.X
		case *ssa.ChangeType:
			v = t.X
		case *ssa.Convert:
			// string <-> []byte conversions copy
			if _, ok := t.X.Type().Underlying().(*types.Slice); ok {
				if _, ok2 := t.Type().Underlying().(*types.Slice); ok2 {
					v = t.X
					continue
				}
			}
			return v
		case *ssa.MakeInterface:
			v = t.X
		default:
			return v
		}
	}
	return v
}

// aliasingCalls: stdlib functions that return a sub-slice of their first argument.
func returnsSubslice(f *ssa.Function) bool {
	if f == nil {
		return false
	}
	p := pkgPathOf(f)
	if p != "bytes" {
		return false
	}
	n := f.Name()
	return strings.HasPrefix(n, "Trim") || n == "Fields" || n == "Split" || n == "Cut" || strings.HasPrefix(n, "Cut")
}

func inputDerived(v ssa.Value, depth int) (bool, string) {
	if depth > 8 {
		return false, ""
	}
	b := sliceBase(v)
	switch t := b.(type) {
	case *ssa.Parameter:
		if _, ok := t.Type().Underlying().(*types.Slice); ok {
			return true, t.Name()
		}
	case *ssa.Call:
		if f := t.Common().StaticCallee(); returnsSubslice(f) && len(t.Common().Args) > 0 {
			return inputDerived(t.Common().Args[0], depth+1)
		}
	case *ssa.Phi:
		for _, e := range t.Edges {
			if ok, n := inputDerived(e, depth+1); ok {
				return true, n
			}
		}
	case *ssa.UnOp:
		// a local variable (cell) assigned from the parameter: str = bytes.TrimSpace(str)
		if t.Op == token.MUL {
			if al, ok := t.X.(*ssa.Alloc); ok {
				for _, r := range *al.Referrers() {
					if st, ok := r.(*ssa.Store); ok && st.Addr == ssa.Value(al) {
						if ok, n := inputDerived(st.Val, depth+1); ok {
							return true, n
						}
					}
				}
			}
		}
	}
	return false, ""
}

func (pc *pCtx) p8Frames(only string) {
	props := []string{"C04", "C18"}
	var paths []string
	for p := range pc.kc.w.ByPath {
		if isRoPkg(p) && !strings.Contains(p, "/examples/") && !strings.HasSuffix(p, "/testing") && !strings.Contains(p, "/internal/") {
			paths = append(paths, p)
		}
	}
	sort.Strings(paths)
	for _, p := range paths {
		fns := pc.kc.w.allFuncs(p)
		for _, k := range sortedKeys(fns) {
			fn := fns[k]
			if fn.Blocks == nil || strings.HasSuffix(pc.kc.w.Prog.Fset.Position(fn.Pos()).Filename, "_test.go") {
				continue
			}
			name := k
			if p != roPath {
				name = strings.TrimPrefix(p, roPath+"/") + "." + k
			}
			if only != "" && !strings.Contains(name, only) {
				continue
			}
			// (d) a plugin operator that hands a library function to Map / MapErr unchanged lifts the function it is named
			// after (rostrconv.Itoa lifts strconv.Itoa)
			if p != roPath && fn.Parent() == nil && ast.IsExported(fn.Name()) {
				for _, b := range fn.Blocks {
					for _, ins := range b.Instrs {
						call, ok := ins.(*ssa.Call)
						if !ok {
							continue
						}
						cf := call.Common().StaticCallee()
						if cf == nil || pkgPathOf(cf) != roPath || !(strings.HasPrefix(cf.Name(), "Map") || strings.HasPrefix(cf.Name(), "Filter")) {
							continue
						}
						for _, a := range call.Common().Args {
							// a lambda around exactly one library call: the wrapped function carries the operator's name
							// (FilterMatch / Regexp.Match, Decode / Encoding.DecodeString, ParseUint64 / ParseUint)
							if mc, ok := a.(*ssa.MakeClosure); ok {
								a = mc.Fn
							}
							if lam, ok := a.(*ssa.Function); ok && lam.Parent() == fn {
								if wc, _ := singleWrappedCall(lam); wc != nil {
									g := wc.Common().StaticCallee()
									fnm := strings.TrimPrefix(fn.Name(), "Filter")
									pc.add([]string{"C18"}, fmt.Sprintf("P8/%s/wraps-the-function-it-is-named-after", name),
										"the library function a plugin operator wraps carries the operator's name (one name contains the other)", strings.Contains(g.Name(), fnm) || strings.Contains(fn.Name(), g.Name()),
										fmt.Sprintf("%s wraps %s.%s", fn.Name(), pkgPathOf(g), g.Name()), pc.pos(wc.Pos()))
								}
								continue
							}
							g, ok := a.(*ssa.Function)
							if !ok || g.Pkg == nil || isRoPkg(pkgPathOf(g)) {
								continue
							}
							pc.add([]string{"C18"}, fmt.Sprintf("P8/%s/lifts-the-function-it-is-named-after", name),
								"a plugin operator that passes a library function to Map / MapErr unchanged passes the function of its own name", g.Name() == fn.Name(),
								fmt.Sprintf("%s lifts %s.%s", fn.Name(), pkgPathOf(g), g.Name()), pc.pos(ins.Pos()))
						}
					}
				}
			}
			// (c) a byte is not a character: a unicode.* classification applied to rune(b) of one byte of a byte slice
			// treats every byte of a multi-byte character as a character of its own (the byte flavour of a text helper
			// then disagrees with the string flavour on the same text)
			nByte := 0
			for _, b := range fn.Blocks {
				for _, ins := range b.Instrs {
					call, ok := ins.(*ssa.Call)
					if !ok {
						continue
					}
					f := call.Common().StaticCallee()
					if f == nil || pkgPathOf(f) != "unicode" || len(call.Common().Args) == 0 {
						continue
					}
					cv, ok := call.Common().Args[0].(*ssa.Convert)
					if !ok {
						continue
					}
					if bt, ok := cv.X.Type().Underlying().(*types.Basic); ok && bt.Kind() == types.Uint8 {
						nByte++
						pc.add([]string{"C18"}, fmt.Sprintf("P8/%s/unicode-call#%d-classifies-a-character-not-a-byte", name, nByte),
							"a unicode classification is applied to a decoded character, never to rune(b) of a single byte of a byte slice", false,
							fmt.Sprintf("unicode.%s(rune(<byte>)) at %s", f.Name(), pc.pos(ins.Pos())), pc.pos(ins.Pos()))
					}
				}
			}
			// (b) append into a slice derived from a parameter
			nApp := 0
			for _, b := range fn.Blocks {
				for _, ins := range b.Instrs {
					call, ok := ins.(*ssa.Call)
					if !ok {
						continue
					}
					if bi, ok := call.Common().Value.(*ssa.Builtin); ok && bi.Name() == "append" && len(call.Common().Args) == 2 {
						nApp++
						derived, pname := inputDerived(call.Common().Args[0], 0)
						// appending nothing (append(x, nil...)) or to an explicit copy is fine; a full slice expression x[:n:n] too
						if sl, ok := call.Common().Args[0].(*ssa.Slice); ok && sl.Max != nil {
							derived = false
						}
						if derived {
							pc.add(props, fmt.Sprintf("P8/%s/append#%d-does-not-write-the-input", name, nApp),
								"appending to (a sub-slice of) a slice received as a parameter can overwrite the caller's data through its spare capacity: the function must append to a copy", false,
								fmt.Sprintf("append to a slice derived from parameter %s", pname), pc.pos(ins.Pos()))
						} else if _, isParamFn := hasSliceParam(fn); isParamFn {
							pc.add(props, fmt.Sprintf("P8/%s/append#%d-does-not-write-the-input", name, nApp),
								"appending to (a sub-slice of) a slice received as a parameter can overwrite the caller's data through its spare capacity: the function must append to a copy", true, "", pc.pos(ins.Pos()))
						}
					}
				}
			}
			// (e) a batch taken out of a cell and delivered: what is put back into the cell must not share its array
			// (buffer = buffer[len(buffer):] keeps the spare capacity of the delivered batch: the next appends, and the
			// consumer's own appends, then write the same memory)
			nBatch := 0
			for _, b := range fn.Blocks {
				for _, ins := range b.Instrs {
					call, ok := ins.(*ssa.Call)
					if !ok || !call.Common().IsInvoke() || (call.Common().Method.Name() != "NextWithContext" && call.Common().Method.Name() != "Next") {
						continue
					}
					args := call.Common().Args
					if len(args) == 0 {
						continue
					}
					val := args[len(args)-1]
					if _, ok := val.Type().Underlying().(*types.Slice); !ok {
						continue
					}
					ld, ok := val.(*ssa.UnOp)
					if !ok || ld.Op != token.MUL {
						continue
					}
					nBatch++
					shared := ""
					// stores back into the same cell (same address value, or another load path to the same cell) of a sub-slice of it
					for _, b2 := range fn.Blocks {
						for _, i2 := range b2.Instrs {
							st, ok := i2.(*ssa.Store)
							if !ok {
								continue
							}
							// the delivered value itself (or a sub-slice of it) kept in a cell: whatever that cell feeds later
							// writes the memory the consumer was given
							if st.Val == ssa.Value(ld) {
								shared = fmt.Sprintf("the delivered batch is kept in a cell (%s)", pc.pos(st.Pos()))
							}
							if sl0, ok := st.Val.(*ssa.Slice); ok && sl0.X == ssa.Value(ld) {
								shared = fmt.Sprintf("a sub-slice of the delivered batch is kept in a cell (%s)", pc.pos(st.Pos()))
							}
							sl, ok := st.Val.(*ssa.Slice)
							if !ok {
								continue
							}
							src, ok := sl.X.(*ssa.UnOp)
							if !ok || src.Op != token.MUL {
								continue
							}
							if src.X == ld.X && st.Addr == ld.X {
								shared = fmt.Sprintf("the cell is re-assigned a sub-slice of the delivered batch (%s)", pc.pos(st.Pos()))
							}
						}
					}
					pc.add([]string{"C04", "C05", "C16", "C18"}, fmt.Sprintf("P8/%s/delivered-batch#%d-does-not-share-its-array-with-the-buffer", name, nBatch),
						"a batch taken out of a cell and delivered downstream does not share its array with what is put back into the cell", shared == "",
						shared, pc.pos(ins.Pos()))
				}
			}
			// (a) a delivered slice shares its array with a buffer re-filled by the same loop
			nEmit := 0
			for _, b := range fn.Blocks {
				for _, ins := range b.Instrs {
					call, ok := ins.(*ssa.Call)
					if !ok || !call.Common().IsInvoke() || call.Common().Method.Name() != "NextWithContext" && call.Common().Method.Name() != "Next" {
						continue
					}
					if !inLoop(call) {
						continue
					}
					args := call.Common().Args
					val := args[len(args)-1]
					if _, ok := val.Type().Underlying().(*types.Slice); !ok {
						continue
					}
					nEmit++
					base := sliceBase(val)
					reused := ""
					// the base must be created inside the loop (fresh per iteration)
					if bi, ok := base.(ssa.Instruction); ok && !inLoop(bi) {
						// is the base handed to a writer inside the loop?
						for _, r := range *base.Referrers() {
							ri, ok := r.(ssa.Instruction)
							if !ok || !inLoop(ri) {
								continue
							}
							switch t := r.(type) {
							case *ssa.Call:
								if t != call {
									reused = "it is passed to " + calleeDesc(t.Common()) + " in the same loop"
								}
							case *ssa.IndexAddr:
								reused = "its elements are assigned in the same loop"
							}
						}
						if _, isParam := base.(*ssa.Parameter); isParam {
							reused = ""
						}
					}
					pc.add(props, fmt.Sprintf("P8/%s/delivered-slice#%d-is-not-reused", name, nEmit),
						"a slice delivered downstream is not written afterwards: a buffer that is refilled by the loop must be copied before it is delivered", reused == "",
						"the delivered slice aliases a buffer allocated outside the loop, and "+reused, pc.pos(ins.Pos()))
					// (f) the storage of a delivered slice is kept for later: a sub-slice of it (long = long[:0]) or the slice
					// itself reaches, after the delivery, the first argument of an append or a copy - through the loop's
					// phi, without being re-made first - so the consumer's value is overwritten by the next item
					if why := appendedAfterDelivery(call, val); why != "" || inLoop(call) {
						pc.add(props, fmt.Sprintf("P8/%s/delivered-slice#%d-storage-is-not-written-afterwards", name, nEmit),
							"the storage of a slice delivered downstream is not appended or copied into after the delivery", why == "",
							why, pc.pos(ins.Pos()))
					}
				}
			}
		}
	}
}

func hasSliceParam(fn *ssa.Function) (string, bool) {
	for _, p := range fn.Params {
		if _, ok := p.Type().Underlying().(*types.Slice); ok {
			return p.Name(), true
		}
	}
	return "", false
}

func calleeDesc(c *ssa.CallCommon) string {
	if c.IsInvoke() {
		return c.Method.Name()
	}
	if f := c.StaticCallee(); f != nil {
		return f.Name()
	}
	if b, ok := c.Value.(*ssa.Builtin); ok {
		return b.Name()
	}
	return "a function value"
}

// mayWriteSliceParams: can the library function fn (with its closures) write the elements of a slice it receives as a
// parameter? Conservative syntactic answer used by the executor to keep the contents of a slice across a call of a
// library function: true unless every use of every parameter-derived slice value is a read (index load, range, len,
// cap, re-slice, source of append/copy, being captured, being stored in a cell) or a hand-over to Just/Of (which only
// read it).
var mayWriteMemo = map[*ssa.Function]bool{}

func mayWriteSliceParams(fn *ssa.Function) bool {
	if v, ok := mayWriteMemo[fn]; ok {
		return v
	}
	mayWriteMemo[fn] = true // recursion guard: assume the worst
	res := false
	for _, f := range closureTree(fn) {
		for _, b := range f.Blocks {
			for _, ins := range b.Instrs {
				switch t := ins.(type) {
				case *ssa.Store:
					if ia, ok := t.Addr.(*ssa.IndexAddr); ok {
						if d, _ := inputDerivedOrCaptured(ia.X, 0); d {
							res = true
						}
					}
				case *ssa.Call:
					c := t.Common()
					if bi, ok := c.Value.(*ssa.Builtin); ok {
						switch bi.Name() {
						case "append":
							if d, _ := inputDerivedOrCaptured(c.Args[0], 0); d {
								if sl, ok := c.Args[0].(*ssa.Slice); !ok || sl.Max == nil {
									res = true
								}
							}
						case "copy":
							if d, _ := inputDerivedOrCaptured(c.Args[0], 0); d {
								res = true
							}
						}
						continue
					}
					for _, a := range c.Args {
						if _, isSl := a.Type().Underlying().(*types.Slice); !isSl {
							continue
						}
						if d, _ := inputDerivedOrCaptured(a, 0); !d {
							continue
						}
						callee := c.StaticCallee()
						if callee != nil && callee.Origin() != nil {
							callee = callee.Origin()
						}
						if callee != nil && callee.Pkg != nil && isRoPkg(callee.Pkg.Pkg.Path()) && callee.Blocks != nil && !mayWriteSliceParams(callee) {
							continue
						}
						res = true
					}
				}
			}
		}
	}
	mayWriteMemo[fn] = res
	return res
}

// inputDerivedOrCaptured: v is (a re-slice of) a slice parameter, possibly read back from the cell a closure captured it in.
func inputDerivedOrCaptured(v ssa.Value, depth int) (bool, string) {
	if depth > 8 {
		return false, ""
	}
	if d, n := inputDerived(v, depth); d {
		return d, n
	}
	switch t := v.(type) {
	case *ssa.UnOp:
		if fv, ok := t.X.(*ssa.FreeVar); ok {
			// a captured cell: conservatively treat cells of slice type named after a parameter of the enclosing functions as inputs
			for p := fv.Parent().Parent(); p != nil; p = p.Parent() {
				for _, prm := range p.Params {
					if prm.Name() == fv.Name() {
						return true, prm.Name()
					}
				}
			}
		}
	case *ssa.Slice:
		return inputDerivedOrCaptured(t.X, depth+1)
	}
	return false, ""
}

// p1Helpers: a helper function that is handed a destination (a top-level function with an Observer parameter, called from
// operator callbacks) emits with the WithContext forms: the short forms substitute context.Background() and drop whatever
// context the notification carried. (P1 checks the closures of the operators themselves; helpers are outside its sites.)
func (pc *pCtx) p1Helpers(only string) {
	var paths []string
	for p := range pc.kc.w.ByPath {
		if isRoPkg(p) && !strings.Contains(p, "/examples/") && !strings.HasSuffix(p, "/testing") && !strings.Contains(p, "/internal/") {
			paths = append(paths, p)
		}
	}
	sort.Strings(paths)
	for _, p := range paths {
		fns := pc.kc.w.allFuncs(p)
		for _, k := range sortedKeys(fns) {
			fn := fns[k]
			if fn.Blocks == nil || fn.Parent() != nil || fn.Signature.Recv() != nil || strings.HasSuffix(pc.kc.w.Prog.Fset.Position(fn.Pos()).Filename, "_test.go") {
				continue
			}
			hasObs := false
			for _, prm := range fn.Params {
				if isObserverType(prm.Type()) {
					hasObs = true
				}
			}
			if !hasObs {
				continue
			}
			name := k
			if p != roPath {
				name = strings.TrimPrefix(p, roPath+"/") + "." + k
			}
			if only != "" && !strings.Contains(name, only) {
				continue
			}
			emits := 0
			short := ""
			var at token.Pos
			for _, f := range closureTree(fn) {
				for _, b := range f.Blocks {
					for _, ins := range b.Instrs {
						call, ok := ins.(ssa.CallInstruction)
						if !ok || !call.Common().IsInvoke() {
							continue
						}
						c := call.Common()
						m := c.Method.Name()
						if !emitMethods[m] || !(isObserverType(c.Value.Type()) || hasMethod(c.Value.Type(), "NextWithContext")) {
							continue
						}
						emits++
						if !strings.HasSuffix(m, "WithContext") && short == "" {
							short = fmt.Sprintf("%s drops the context (uses context.Background()) at %s", m, pc.pos(ins.Pos()))
							at = ins.Pos()
						}
					}
				}
			}
			if emits == 0 {
				continue
			}
			props := []string{"C09"}
			if p != roPath {
				props = append(props, "C18")
			}
			pc.add(props, fmt.Sprintf("P1/%s/helper-emits-with-a-context", name),
				"a helper that is handed a destination emits with the WithContext forms (the short forms drop the notification's context)", short == "", short, pc.pos(at))
		}
	}
}

// p7NoTryLock: an operator waits for its locks. A callback that tries a lock and goes away when it is busy returns to its
// producer before the value has been handled (and drops the work it was about to do): the only place that is allowed to
// drop on a busy lock is the subscriber's explicitly dropping mode, which is a method, not an operator.
func (pc *pCtx) p7NoTryLock(only string) {
	var paths []string
	for p := range pc.kc.w.ByPath {
		if isRoPkg(p) && !strings.Contains(p, "/examples/") && !strings.HasSuffix(p, "/testing") && !strings.Contains(p, "/internal/") {
			paths = append(paths, p)
		}
	}
	sort.Strings(paths)
	for _, p := range paths {
		fns := pc.kc.w.allFuncs(p)
		for _, k := range sortedKeys(fns) {
			fn := fns[k]
			if fn.Blocks == nil || fn.Parent() != nil || fn.Signature.Recv() != nil || strings.HasSuffix(pc.kc.w.Prog.Fset.Position(fn.Pos()).Filename, "_test.go") {
				continue
			}
			name := k
			if p != roPath {
				name = strings.TrimPrefix(p, roPath+"/") + "." + k
			}
			if only != "" && !strings.Contains(name, only) {
				continue
			}
			locks := 0
			tried := ""
			var at token.Pos
			for _, f := range closureTree(fn) {
				for _, b := range f.Blocks {
					for _, ins := range b.Instrs {
						call, ok := ins.(ssa.CallInstruction)
						if !ok {
							continue
						}
						c := call.Common()
						m := ""
						if c.IsInvoke() {
							m = c.Method.Name()
						} else if sc := c.StaticCallee(); sc != nil && sc.Signature.Recv() != nil {
							m = sc.Name()
						}
						switch m {
						case "Lock", "RLock":
							locks++
						case "TryLock", "TryRLock":
							locks++
							if tried == "" {
								tried = fmt.Sprintf("%s at %s", m, pc.pos(ins.Pos()))
								at = ins.Pos()
							}
						}
					}
				}
			}
			if locks == 0 {
				continue
			}
			pc.add([]string{"C08", "C05", "C02"}, fmt.Sprintf("P7/%s/waits-for-its-locks", name),
				"an operator waits for the locks it takes (a callback that goes away when a lock is busy returns to its producer before the value is handled)", tried == "", tried, pc.pos(at))
		}
	}
}

// p3SpareCapacity: a slice with spare capacity that is made when an operator is built or applied (outside every subscribe
// function) is one array for all subscriptions: whatever appends to it at subscription time writes memory that earlier
// subscribers were given (`seed := make([]T, 0, 16)` handed to Reduce).
func (pc *pCtx) p3SpareCapacity(only string) {
	isObs := func(t types.Type) bool { return namedName(t) == "Observable" || namedName(t) == "ConnectableObservable" }
	var paths []string
	for p := range pc.kc.w.ByPath {
		if isRoPkg(p) && !strings.Contains(p, "/examples/") && !strings.HasSuffix(p, "/testing") && !strings.Contains(p, "/internal/") {
			paths = append(paths, p)
		}
	}
	sort.Strings(paths)
	for _, p := range paths {
		fns := pc.kc.w.allFuncs(p)
		for _, k := range sortedKeys(fns) {
			fn := fns[k]
			if fn.Blocks == nil || fn.Parent() != nil || fn.Signature.Recv() != nil || strings.HasSuffix(pc.kc.w.Prog.Fset.Position(fn.Pos()).Filename, "_test.go") {
				continue
			}
			// an operator or a source: returns an Observable, or a function from Observable to Observable
			res := fn.Signature.Results()
			if res.Len() != 1 {
				continue
			}
			opLike := isObs(res.At(0).Type())
			if sig, ok := res.At(0).Type().Underlying().(*types.Signature); ok && sig.Params().Len() == 1 && sig.Results().Len() == 1 && isObs(sig.Params().At(0).Type()) && isObs(sig.Results().At(0).Type()) {
				opLike = true
			}
			if !opLike {
				continue
			}
			name := k
			if p != roPath {
				name = strings.TrimPrefix(p, roPath+"/") + "." + k
			}
			if only != "" && !strings.Contains(name, only) {
				continue
			}
			// construction level: the function itself and the closures that map an Observable to an Observable
			level := []*ssa.Function{fn}
			for _, f := range fn.AnonFuncs {
				sg := f.Signature
				if sg.Params().Len() == 1 && sg.Results().Len() == 1 && isObs(sg.Params().At(0).Type()) && isObs(sg.Results().At(0).Type()) {
					level = append(level, f)
				}
			}
			// a clock or a random source read while the operator is built or applied is one reading for every later
			// subscription (a deadline computed once: ContextWithDeadline(time.Now().Add(timeout)))
			clockAnywhere := false
			clockAtLevel := ""
			var clockAt token.Pos
			isLevel := map[*ssa.Function]bool{}
			for _, f := range level {
				isLevel[f] = true
			}
			for _, f := range closureTree(fn) {
				for _, b := range f.Blocks {
					for _, ins := range b.Instrs {
						call, ok := ins.(ssa.CallInstruction)
						if !ok {
							continue
						}
						cf := call.Common().StaticCallee()
						if cf == nil || cf.Pkg == nil {
							continue
						}
						pp := cf.Pkg.Pkg.Path()
						if (pp == "time" && (cf.Name() == "Now" || cf.Name() == "Since" || cf.Name() == "Until")) || strings.HasSuffix(pp, "internal/xtime") || strings.HasSuffix(pp, "internal/xrand") || pp == "math/rand" || pp == "math/rand/v2" {
							clockAnywhere = true
							if isLevel[f] && clockAtLevel == "" {
								clockAtLevel = fmt.Sprintf("%s.%s is read while the operator is built or applied (%s), not per subscription", pp, cf.Name(), pc.pos(ins.Pos()))
								clockAt = ins.Pos()
							}
						}
					}
				}
			}
			if clockAnywhere {
				pc.add([]string{"C12", "C16"}, fmt.Sprintf("P3/%s/no-clock-read-with-the-operator", name),
					"clocks and random sources are read per subscription or per item, never while the operator is built or applied", clockAtLevel == "", clockAtLevel, pc.pos(clockAt))
			}
			made := 0
			spare := ""
			var at token.Pos
			for _, f := range level {
				for _, b := range f.Blocks {
					for _, ins := range b.Instrs {
						if sl, ok := ins.(*ssa.Slice); ok {
							// make([]T, n, c) with constant sizes is built as new [c]T followed by [:n]
							if al, ok := sl.X.(*ssa.Alloc); ok && strings.Contains(al.Comment, "makeslice") {
								if at0, ok := al.Type().Underlying().(*types.Pointer).Elem().Underlying().(*types.Array); ok {
									made++
									hi, hok := sl.High.(*ssa.Const)
									if hok && hi.Int64() < at0.Len() && pc.spareEscapesV(sl, sl.Referrers(), level) && spare == "" {
										spare = fmt.Sprintf("make with a capacity beyond its length at %s", pc.pos(ins.Pos()))
										at = ins.Pos()
									}
								}
							}
							continue
						}
						ms, ok := ins.(*ssa.MakeSlice)
						if !ok {
							continue
						}
						made++
						lc, lok := ms.Len.(*ssa.Const)
						cc, cok := ms.Cap.(*ssa.Const)
						same := ms.Len == ms.Cap || (lok && cok && lc.Int64() == cc.Int64())
						// it matters where the slice goes: handed to another operator (a seed), or appended to by a closure
						// that runs per subscription; a table filled while the operator is built is read-only afterwards
						if !same && !pc.spareEscapes(ms, level) {
							same = true
						}
						if !same && spare == "" {
							spare = fmt.Sprintf("make with a capacity beyond its length at %s", pc.pos(ins.Pos()))
							at = ins.Pos()
						}
					}
				}
			}
			if made == 0 {
				continue
			}
			pc.add([]string{"C12"}, fmt.Sprintf("P3/%s/no-spare-capacity-made-with-the-operator", name),
				"a slice made when the operator is built or applied (outside the subscribe function) has no spare capacity: appends at subscription time would share its array between subscriptions", spare == "", spare, pc.pos(at))
		}
	}
}

// spareEscapes: the made slice is passed to a function of the library (an operator constructor taking a seed), or lives
// in a cell that a closure below the construction level appends to.
func (pc *pCtx) spareEscapes(ms *ssa.MakeSlice, level []*ssa.Function) bool {
	return pc.spareEscapesV(ms, ms.Referrers(), level)
}

func (pc *pCtx) spareEscapesV(self ssa.Value, refs *[]ssa.Instruction, level []*ssa.Function) bool {
	atLevel := map[*ssa.Function]bool{}
	for _, f := range level {
		atLevel[f] = true
	}
	for _, r := range *refs {
		switch t := r.(type) {
		case *ssa.Call:
			if cf := t.Common().StaticCallee(); cf != nil && isRoPkg(pkgPathOf(cf)) {
				return true
			}
		case *ssa.Store:
			al, ok := t.Addr.(*ssa.Alloc)
			if !ok || ssa.Value(al) == t.Val {
				continue
			}
			// loads of the cell inside per-subscription closures that feed append
			for _, f := range closureTree(al.Parent()) {
				if atLevel[f] {
					continue
				}
				for _, b := range f.Blocks {
					for _, ins := range b.Instrs {
						call, ok := ins.(*ssa.Call)
						if !ok {
							continue
						}
						bi, ok := call.Common().Value.(*ssa.Builtin)
						if !ok || bi.Name() != "append" || len(call.Common().Args) == 0 {
							continue
						}
						if ld, ok := call.Common().Args[0].(*ssa.UnOp); ok && ld.Op == token.MUL {
							if fv, ok := ld.X.(*ssa.FreeVar); ok && fv.Name() == al.Comment {
								return true
							}
						}
					}
				}
			}
		}
	}
	return false
}

// p8Twins: the string flavour and the byte flavour of a text helper (functions of the same name in plugins/strings and
// plugins/bytes) classify characters with the same functions of package unicode - the flavours agree on the same text
// only if a character is a letter, a digit, upper case ... for both.
func (pc *pCtx) p8Twins(only string) {
	sp, bp := roPath+"/plugins/strings", roPath+"/plugins/bytes"
	if pc.kc.w.ByPath[sp] == nil || pc.kc.w.ByPath[bp] == nil {
		return
	}
	classifiers := func(fn *ssa.Function) map[string]bool {
		out := map[string]bool{}
		for _, f := range closureTree(fn) {
			for _, b := range f.Blocks {
				for _, ins := range b.Instrs {
					call, ok := ins.(ssa.CallInstruction)
					if !ok {
						continue
					}
					if cf := call.Common().StaticCallee(); cf != nil && cf.Pkg != nil && cf.Pkg.Pkg.Path() == "unicode" {
						out[cf.Name()] = true
					}
				}
			}
		}
		return out
	}
	sf, bf := pc.kc.w.allFuncs(sp), pc.kc.w.allFuncs(bp)
	for _, k := range sortedKeys(sf) {
		a, b := sf[k], bf[k]
		if a == nil || b == nil || k == "init" || a.Parent() != nil || b.Parent() != nil || a.Blocks == nil || b.Blocks == nil {
			continue
		}
		if strings.HasSuffix(pc.kc.w.Prog.Fset.Position(a.Pos()).Filename, "_test.go") || strings.HasSuffix(pc.kc.w.Prog.Fset.Position(b.Pos()).Filename, "_test.go") {
			continue
		}
		if only != "" && !strings.Contains(k, only) {
			continue
		}
		ca, cb := classifiers(a), classifiers(b)
		if len(ca) == 0 && len(cb) == 0 {
			continue
		}
		same := len(ca) == len(cb)
		for n := range ca {
			if !cb[n] {
				same = false
			}
		}
		pc.add([]string{"C18"}, fmt.Sprintf("P8/plugins/strings+bytes.%s/the-two-flavours-classify-characters-alike", k),
			"the string flavour and the byte flavour of a text helper use the same character classes of package unicode", same,
			fmt.Sprintf("strings.%s uses unicode.{%s}, bytes.%s uses unicode.{%s}", k, strings.Join(sortedStrs(ca), ","), k, strings.Join(sortedStrs(cb), ",")), pc.pos(a.Pos()))
	}
}

// p1CtxKeys: a context key that the library makes up itself is a value of a named type declared in the library (a
// private struct type): a key of an unnamed or built-in type - `struct{}{}`, a string - is equal to the same value
// made anywhere else, so the library's entry and the application's overwrite each other.
func (pc *pCtx) p1CtxKeys(only string) {
	var paths []string
	for p := range pc.kc.w.ByPath {
		if isRoPkg(p) && !strings.Contains(p, "/examples/") && !strings.HasSuffix(p, "/testing") {
			paths = append(paths, p)
		}
	}
	sort.Strings(paths)
	for _, p := range paths {
		fns := pc.kc.w.allFuncs(p)
		for _, k := range sortedKeys(fns) {
			fn := fns[k]
			if fn.Blocks == nil || fn.Parent() != nil || strings.HasSuffix(pc.kc.w.Prog.Fset.Position(fn.Pos()).Filename, "_test.go") {
				continue
			}
			name := k
			if p != roPath {
				name = strings.TrimPrefix(p, roPath+"/") + "." + k
			}
			if only != "" && !strings.Contains(name, only) {
				continue
			}
			keys := 0
			bad := ""
			var at token.Pos
			for _, f := range closureTree(fn) {
				for _, b := range f.Blocks {
					for _, ins := range b.Instrs {
						call, ok := ins.(ssa.CallInstruction)
						if !ok {
							continue
						}
						c := call.Common()
						var key ssa.Value
						if cf := c.StaticCallee(); cf != nil && cf.Pkg != nil && cf.Pkg.Pkg.Path() == "context" && cf.Name() == "WithValue" && len(c.Args) == 3 {
							key = c.Args[1]
						} else if c.IsInvoke() && c.Method.Name() == "Value" && len(c.Args) == 1 && isContextType(c.Value.Type()) {
							key = c.Args[0]
						}
						mi, ok := key.(*ssa.MakeInterface)
						if !ok {
							continue // a key handed in by the caller
						}
						keys++
						nt, isNamed := mi.X.Type().(*types.Named)
						if !(isNamed && nt.Obj().Pkg() != nil && isRoPkg(nt.Obj().Pkg().Path())) && bad == "" {
							bad = fmt.Sprintf("context key of type %s at %s", mi.X.Type().String(), pc.pos(ins.Pos()))
							at = ins.Pos()
						}
					}
				}
			}
			if keys == 0 {
				continue
			}
			props := []string{"C09"}
			if strings.Contains(p, "/ee/plugins/prometheus") {
				props = []string{"C19", "C09"}
			}
			pc.add(props, fmt.Sprintf("P1/%s/context-keys-are-of-a-private-named-type", name),
				"a context key made up by the library is a value of a named type declared in the library", bad == "", bad, pc.pos(at))
		}
	}
}

// p2BareReceive: a function that waits in a select (so that a stop channel or a context can end the wait) does not also
// block on a bare channel receive, where nothing can stop it: after the teardown it would still take what arrives on the
// channel (FromChannel draining "what is already buffered" with plain receives).
func (pc *pCtx) p2BareReceive(only string) {
	var paths []string
	for p := range pc.kc.w.ByPath {
		if isRoPkg(p) && !strings.Contains(p, "/examples/") && !strings.HasSuffix(p, "/testing") && !strings.Contains(p, "/internal/") {
			paths = append(paths, p)
		}
	}
	sort.Strings(paths)
	for _, p := range paths {
		fns := pc.kc.w.allFuncs(p)
		for _, k := range sortedKeys(fns) {
			fn := fns[k]
			if fn.Blocks == nil || strings.HasSuffix(pc.kc.w.Prog.Fset.Position(fn.Pos()).Filename, "_test.go") {
				continue
			}
			name := k
			if p != roPath {
				name = strings.TrimPrefix(p, roPath+"/") + "." + k
			}
			if only != "" && !strings.Contains(name, only) {
				continue
			}
			selects := 0
			bare := ""
			var at token.Pos
			for _, b := range fn.Blocks {
				for _, ins := range b.Instrs {
					switch t := ins.(type) {
					case *ssa.Select:
						if t.Blocking {
							selects++
						}
					case *ssa.UnOp:
						if t.Op == token.ARROW && bare == "" {
							bare = fmt.Sprintf("a receive outside the select at %s", pc.pos(t.Pos()))
							at = t.Pos()
						}
					}
				}
			}
			if selects == 0 {
				continue
			}
			pc.add([]string{"C03", "C14", "C17"}, fmt.Sprintf("P2/%s/waits-only-in-its-select", name),
				"a function that waits in a select, where a stop channel or a context can end the wait, does not also block on a bare channel receive", bare == "", bare, pc.pos(at))
		}
	}
}

// d2ContextlessMethods: the context-less method M of a type that also has MWithContext (Subscribe, Connect, Next, Error,
// Complete of observables, observers, subscribers and subjects) is that method called once, on the same receiver, with
// context.Background() and the same arguments in order - and nothing else.
func (pc *pCtx) d2ContextlessMethods(only string) {
	var paths []string
	for p := range pc.kc.w.ByPath {
		if isRoPkg(p) && !strings.Contains(p, "/examples/") && !strings.HasSuffix(p, "/testing") {
			paths = append(paths, p)
		}
	}
	sort.Strings(paths)
	for _, p := range paths {
		fns := pc.kc.w.allFuncs(p)
		for _, k := range sortedKeys(fns) {
			fn := fns[k]
			if fn.Blocks == nil || fn.Parent() != nil || fn.Signature.Recv() == nil || strings.HasSuffix(pc.kc.w.Prog.Fset.Position(fn.Pos()).Filename, "_test.go") {
				continue
			}
			m := fn.Name()
			switch m {
			case "Subscribe", "Connect", "Next", "Error", "Complete":
			default:
				continue
			}
			if !hasMethod(fn.Signature.Recv().Type(), m+"WithContext") {
				continue
			}
			name := k
			if p != roPath {
				name = strings.TrimPrefix(p, roPath+"/") + "." + k
			}
			if only != "" && !strings.Contains(name, only) {
				continue
			}
			why := ""
			calls := 0
			for _, b := range fn.Blocks {
				for _, ins := range b.Instrs {
					call, ok := ins.(ssa.CallInstruction)
					if !ok {
						continue
					}
					c := call.Common()
					cf := c.StaticCallee()
					if cf != nil && cf.Pkg != nil && cf.Pkg.Pkg.Path() == "context" && cf.Name() == "Background" {
						continue
					}
					calls++
					callee := ""
					var args []ssa.Value
					if c.IsInvoke() {
						callee = c.Method.Name()
						args = append([]ssa.Value{c.Value}, c.Args...)
					} else if cf != nil {
						callee = cf.Name()
						args = c.Args
					}
					if i := strings.Index(callee, "["); i > 0 {
						callee = callee[:i] // an instantiation of a generic method
					}
					if callee != m+"WithContext" {
						why = fmt.Sprintf("calls %s", callee)
						continue
					}
					// receiver, context.Background(), then the parameters in order
					if len(args) != len(fn.Params)+1 || args[0] != ssa.Value(fn.Params[0]) {
						why = "the WithContext form is called on another receiver or with other arguments"
						continue
					}
					if bc, ok := args[1].(*ssa.Call); !ok || bc.Common().StaticCallee() == nil || bc.Common().StaticCallee().Name() != "Background" {
						why = "the context handed over is not context.Background()"
					}
					for i := 1; i < len(fn.Params); i++ {
						if args[i+1] != ssa.Value(fn.Params[i]) {
							why = fmt.Sprintf("argument %d is not parameter %s", i, fn.Params[i].Name())
						}
					}
				}
			}
			if calls != 1 && why == "" {
				why = fmt.Sprintf("%d calls instead of one", calls)
			}
			pc.add([]string{"C09", "C01", "C06", "C10", "C11"}, fmt.Sprintf("D2/%s/is-its-WithContext-form-with-a-background-context", name),
				"the context-less method is its WithContext form called once, on the same receiver, with context.Background() and the same arguments", why == "", why, pc.pos(fn.Pos()))
		}
	}
}

// t1Promoted: a type contract may say `promoted m1 m2 ... | Cxx,Cyy`: these methods of the type are the ones promoted
// from an embedded field (subscriberImpl's Wait, Add, AddUnsubscribable are its Subscription's). Declaring one of them on
// the type itself shadows the embedded method everywhere the type is used - a `Wait` with a fast path on the status word
// returns before the finalizers have run.
func (pc *pCtx) t1Promoted(only string) {
	var names []string
	for n := range pc.kc.types {
		names = append(names, n)
	}
	sort.Strings(names)
	for _, n := range names {
		ts := pc.kc.types[n]
		if ts == nil || ts.Block == nil {
			continue
		}
		for _, c := range ts.Block.all("promoted") {
			txt := c.Text
			props := []string{"C03", "C06", "C14", "C15"}
			if i := strings.Index(txt, "|"); i >= 0 {
				props = strings.FieldsFunc(txt[i+1:], func(r rune) bool { return r == ',' || r == ' ' })
				txt = txt[:i]
			}
			fns := pc.kc.w.allFuncs(ts.Block.Pkg)
			for _, m := range strings.Fields(txt) {
				if only != "" && !strings.Contains(n+"."+m, only) {
					continue
				}
				declared := ""
				for _, key := range []string{"(*" + n + ")." + m, "(" + n + ")." + m} {
					if fn := fns[key]; fn != nil && fn.Synthetic == "" && fn.Blocks != nil {
						declared = fmt.Sprintf("%s is declared at %s", key, pc.pos(fn.Pos()))
					}
				}
				pc.add(props, fmt.Sprintf("T1/%s/promoted:%s", n, m),
					"the method is the one promoted from the embedded field, not a declaration of the type's own that shadows it", declared == "", declared, "")
			}
		}
	}
}

// p2StopChannels: a function that waits in several selects can be told to stop in each of them: every signal channel (a
// context's Done(), a captured `chan struct{}` such as the teardown's done channel) that one of its blocking selects
// watches is watched by all of them. A goroutine restructured into "wait for the first tick, then loop" that forgets the
// teardown's channel in its first phase stays parked after the subscription was closed.
func (pc *pCtx) p2StopChannels(only string) {
	var paths []string
	for p := range pc.kc.w.ByPath {
		if isRoPkg(p) && !strings.Contains(p, "/examples/") && !strings.HasSuffix(p, "/testing") && !strings.Contains(p, "/internal/") {
			paths = append(paths, p)
		}
	}
	sort.Strings(paths)
	var keyOf func(v ssa.Value) string
	keyOf = func(v ssa.Value) string {
		switch t := v.(type) {
		case *ssa.UnOp:
			if t.Op == token.MUL {
				switch x := t.X.(type) {
				case *ssa.FreeVar:
					return x.Name()
				case *ssa.Alloc:
					return x.Comment
				}
			}
		case *ssa.Call:
			c := t.Common()
			if c.IsInvoke() && c.Method.Name() == "Done" && isContextType(c.Value.Type()) {
				return "Done(" + c.Value.Name() + ")"
			}
		case *ssa.Parameter:
			return t.Name()
		case *ssa.FreeVar:
			return t.Name()
		case *ssa.ChangeType:
			return keyOf(t.X)
		case *ssa.MakeChan:
			return "make:" + t.Name()
		}
		return ""
	}
	isSignal := func(v ssa.Value) bool {
		if c, ok := v.(*ssa.Call); ok && c.Common().IsInvoke() && c.Common().Method.Name() == "Done" {
			return true
		}
		ch, ok := v.Type().Underlying().(*types.Chan)
		if !ok {
			return false
		}
		st, ok := ch.Elem().Underlying().(*types.Struct)
		return ok && st.NumFields() == 0
	}
	for _, p := range paths {
		fns := pc.kc.w.allFuncs(p)
		for _, k := range sortedKeys(fns) {
			fn := fns[k]
			if fn.Blocks == nil || strings.HasSuffix(pc.kc.w.Prog.Fset.Position(fn.Pos()).Filename, "_test.go") {
				continue
			}
			name := k
			if p != roPath {
				name = strings.TrimPrefix(p, roPath+"/") + "." + k
			}
			if only != "" && !strings.Contains(name, only) {
				continue
			}
			var sels []*ssa.Select
			for _, b := range fn.Blocks {
				for _, ins := range b.Instrs {
					if sel, ok := ins.(*ssa.Select); ok && sel.Blocking {
						sels = append(sels, sel)
					}
				}
			}
			if len(sels) < 2 {
				continue
			}
			signals := map[string]bool{}
			watch := make([]map[string]bool, len(sels))
			for i, sel := range sels {
				watch[i] = map[string]bool{}
				for _, st := range sel.States {
					if st.Dir != types.RecvOnly {
						continue
					}
					key := keyOf(st.Chan)
					if key == "" {
						continue
					}
					watch[i][key] = true
					if isSignal(st.Chan) {
						// contexts are compared by method, not by SSA name: one Done() per select is one signal
						if strings.HasPrefix(key, "Done(") {
							key = "Done()"
							watch[i][key] = true
						}
						signals[key] = true
					}
				}
			}
			missing := ""
			var at token.Pos
			for i, sel := range sels {
				for _, sg := range sortedStrs(signals) {
					if !watch[i][sg] && missing == "" {
						missing = fmt.Sprintf("the select at %s does not watch %s, which another select of the function does", pc.pos(sel.Pos()), sg)
						at = sel.Pos()
					}
				}
			}
			pc.add([]string{"C03", "C14", "C16"}, fmt.Sprintf("P2/%s/every-select-watches-the-stop-channels", name),
				"every blocking select of a function watches every signal channel (a context's Done(), a captured chan struct{}) that another of its selects watches", missing == "", missing, pc.pos(at))
		}
	}
}

// p7Helpers: a helper function that is handed pointers to shared state together with the lock that protects it (Zip's
// zipInnerSubscription(obs, &mu, &muEmit, &values, &completed, ...)) dereferences each such pointer under one common lock,
// in every callback it builds. The lockset rule of the operator sites (P7) stops at the call of the helper.
func (pc *pCtx) p7Helpers(only string) {
	var paths []string
	for p := range pc.kc.w.ByPath {
		if isRoPkg(p) && !strings.Contains(p, "/examples/") && !strings.HasSuffix(p, "/testing") && !strings.Contains(p, "/internal/") {
			paths = append(paths, p)
		}
	}
	sort.Strings(paths)
	isMutexPtr := func(t types.Type) bool {
		pt, ok := t.Underlying().(*types.Pointer)
		if !ok {
			return false
		}
		n := namedName(pt.Elem())
		return n == "Mutex" || n == "RWMutex"
	}
	// the name of the parameter a value is (directly, through the cell it was captured in, or as a closure's free variable)
	var rootName func(v ssa.Value) string
	rootName = func(v ssa.Value) string {
		switch t := v.(type) {
		case *ssa.Parameter:
			return t.Name()
		case *ssa.FreeVar:
			return t.Name()
		case *ssa.Alloc:
			return t.Comment
		case *ssa.UnOp:
			if t.Op == token.MUL {
				return rootName(t.X)
			}
		case *ssa.ChangeType:
			return rootName(t.X)
		}
		return ""
	}
	for _, p := range paths {
		fns := pc.kc.w.allFuncs(p)
		for _, k := range sortedKeys(fns) {
			fn := fns[k]
			if fn.Blocks == nil || fn.Parent() != nil || fn.Signature.Recv() != nil || strings.HasSuffix(pc.kc.w.Prog.Fset.Position(fn.Pos()).Filename, "_test.go") {
				continue
			}
			locks := map[string]bool{}
			ptrs := map[string]bool{}
			for _, prm := range fn.Params {
				if isMutexPtr(prm.Type()) {
					locks[prm.Name()] = true
				} else if _, ok := prm.Type().Underlying().(*types.Pointer); ok {
					ptrs[prm.Name()] = true
				}
			}
			if len(locks) == 0 || len(ptrs) == 0 {
				continue
			}
			name := k
			if p != roPath {
				name = strings.TrimPrefix(p, roPath+"/") + "." + k
			}
			if only != "" && !strings.Contains(name, only) {
				continue
			}
			tree := closureTree(fn)
			// which closures are only ever called directly (their entry lockset is what their callers hold)
			entry := map[*ssa.Function]map[string]bool{}
			called := map[*ssa.Function]bool{}
			type access struct {
				held map[string]bool
				pos  token.Pos
			}
			acc := map[string][]access{}
			lockOf := func(c *ssa.CallCommon) (string, string) {
				f := c.StaticCallee()
				if f == nil || len(c.Args) == 0 {
					return "", ""
				}
				switch f.Name() {
				case "Lock", "RLock":
					return rootName(c.Args[0]), "lock"
				case "Unlock", "RUnlock":
					return rootName(c.Args[0]), "unlock"
				}
				return "", ""
			}
			for iter := 0; iter < 4; iter++ {
				acc = map[string][]access{}
				next := map[*ssa.Function]map[string]bool{}
				for _, f := range tree {
					if f == fn {
						continue // the helper's own body only wires things up
					}
					cur0 := map[string]bool{}
					if called[f] {
						for l := range entry[f] {
							cur0[l] = true
						}
					}
					in := map[*ssa.BasicBlock]map[string]bool{f.Blocks[0]: cur0}
					work := []*ssa.BasicBlock{f.Blocks[0]}
					seenB := map[*ssa.BasicBlock]bool{}
					for len(work) > 0 {
						b := work[0]
						work = work[1:]
						cur := map[string]bool{}
						for l := range in[b] {
							cur[l] = true
						}
						for _, ins := range b.Instrs {
							if call, ok := ins.(*ssa.Call); ok {
								if l, op := lockOf(call.Common()); l != "" && locks[l] {
									if op == "lock" {
										cur[l] = true
									} else {
										delete(cur, l)
									}
								}
								// a direct call of a sibling closure: it runs with what is held here
								for _, g := range tree {
									if callsClosure(call, g) {
										held := map[string]bool{}
										for l := range cur {
											held[l] = true
										}
										if old, ok := next[g]; ok {
											for l := range old {
												if !held[l] {
													delete(old, l)
												}
											}
										} else {
											next[g] = held
										}
										called[g] = true
									}
								}
							}
							// a dereference of a pointer parameter: *p read or written
							var target ssa.Value
							switch t := ins.(type) {
							case *ssa.UnOp:
								if t.Op == token.MUL {
									if inner, ok := t.X.(*ssa.UnOp); ok && inner.Op == token.MUL {
										target = inner.X
									} else if prm, ok := t.X.(*ssa.Parameter); ok {
										target = prm
									}
								}
							case *ssa.Store:
								if inner, ok := t.Addr.(*ssa.UnOp); ok && inner.Op == token.MUL {
									target = inner.X
								} else if prm, ok := t.Addr.(*ssa.Parameter); ok {
									target = prm
								}
							}
							if target != nil {
								if n := rootName(target); ptrs[n] {
									held := map[string]bool{}
									for l := range cur {
										held[l] = true
									}
									acc[n] = append(acc[n], access{held, ins.Pos()})
								}
							}
						}
						for _, succ := range b.Succs {
							old, ok := in[succ]
							if !ok {
								c := map[string]bool{}
								for l := range cur {
									c[l] = true
								}
								in[succ] = c
								work = append(work, succ)
								continue
							}
							changed := false
							for l := range old {
								if !cur[l] {
									delete(old, l)
									changed = true
								}
							}
							if changed || !seenB[succ] {
								seenB[succ] = true
								work = append(work, succ)
							}
						}
					}
				}
				same := len(next) == len(entry)
				for g, ls := range next {
					if len(entry[g]) != len(ls) {
						same = false
					}
				}
				entry = next
				if same {
					break
				}
			}
			for _, pn := range sortedStrs(ptrs) {
				as := acc[pn]
				if len(as) == 0 {
					continue
				}
				common := map[string]bool{}
				for l := range as[0].held {
					common[l] = true
				}
				anyHeld := len(as[0].held) > 0
				var at token.Pos
				for _, a := range as[1:] {
					if len(a.held) > 0 {
						anyHeld = true
					}
					for l := range common {
						if !a.held[l] {
							delete(common, l)
							at = a.pos
						}
					}
				}
				if !anyHeld {
					continue // never accessed under any of the locks it came with: not protected by them
				}
				note := ""
				if len(common) == 0 {
					if at == token.NoPos {
						at = as[0].pos
					}
					note = fmt.Sprintf("*%s is accessed under a lock in one place and without it at %s", pn, pc.pos(at))
				}
				pc.add([]string{"C13", "C05"}, fmt.Sprintf("P7/%s/param:%s-under-one-lock", name, pn),
					"state that a helper reaches through a pointer parameter and accesses under a lock it was given is accessed under that lock everywhere in the helper", len(common) > 0, note, pc.pos(at))
			}
		}
	}
}

// callsClosure: the call invokes closure g directly (through the local variable it was bound to).
func callsClosure(call *ssa.Call, g *ssa.Function) bool {
	v := call.Common().Value
	if v == nil || call.Common().IsInvoke() {
		return false
	}
	switch t := v.(type) {
	case *ssa.MakeClosure:
		return t.Fn == ssa.Value(g)
	case *ssa.Function:
		return t == g
	case *ssa.UnOp:
		// a closure kept in a cell: find the stores of that cell
		if t.Op == token.MUL {
			var cell ssa.Value = t.X
			if fv, ok := cell.(*ssa.FreeVar); ok {
				// resolve to the alloc of the enclosing function with that name
				for f := fv.Parent().Parent(); f != nil; f = f.Parent() {
					for _, b := range f.Blocks {
						for _, ins := range b.Instrs {
							if al, ok := ins.(*ssa.Alloc); ok && al.Comment == fv.Name() {
								cell = al
							}
						}
					}
				}
			}
			if al, ok := cell.(*ssa.Alloc); ok {
				for _, r := range *al.Referrers() {
					if st, ok := r.(*ssa.Store); ok {
						if mc, ok := st.Val.(*ssa.MakeClosure); ok && mc.Fn == ssa.Value(g) {
							return true
						}
					}
				}
			}
		}
	}
	return false
}

// appendedAfterDelivery: value val was handed to the downstream by call; does val, or a sub-slice of it taken after the
// call, reach the destination operand of an append / copy on a path that starts after the call and does not pass the
// instruction that makes val afresh? Returns a description, or "".
func appendedAfterDelivery(call *ssa.Call, val ssa.Value) string {
	fn := call.Parent()
	if fn == nil {
		return ""
	}
	val = func() ssa.Value {
		v := val
		for i := 0; i < 8; i++ {
			switch t := v.(type) {
			case *ssa.ChangeType:
				v = t.X
			case *ssa.MakeInterface:
				v = t.X
			default:
				return v
			}
		}
		return v
	}()
	var defBlock *ssa.BasicBlock
	if di, ok := val.(ssa.Instruction); ok {
		defBlock = di.Block()
	}
	callBlock := call.Block()
	idxIn := func(b *ssa.BasicBlock, ins ssa.Instruction) int {
		for i, x := range b.Instrs {
			if x == ins {
				return i
			}
		}
		return -1
	}
	callIdx := idxIn(callBlock, call)
	// blocks reached after the call, not going through the block that makes the value afresh
	R := map[*ssa.BasicBlock]bool{}
	work := append([]*ssa.BasicBlock{}, callBlock.Succs...)
	for len(work) > 0 {
		b := work[0]
		work = work[1:]
		if R[b] || (b == defBlock && b != callBlock) {
			continue
		}
		if b == callBlock {
			// back at the delivering block through a loop: the value is made afresh if it is defined here before the call
			if defBlock == callBlock {
				continue
			}
		}
		R[b] = true
		work = append(work, b.Succs...)
	}
	after := func(ins ssa.Instruction) bool {
		b := ins.Block()
		if b == callBlock {
			return idxIn(b, ins) > callIdx || R[b]
		}
		return R[b]
	}
	derived := map[ssa.Value]bool{val: true}
	for changed := true; changed; {
		changed = false
		for _, b := range fn.Blocks {
			for _, ins := range b.Instrs {
				switch t := ins.(type) {
				case *ssa.Slice:
					if derived[t.X] && !derived[t] && after(t) && t.Max == nil {
						derived[t] = true
						changed = true
					}
				case *ssa.Phi:
					if derived[t] {
						continue
					}
					for i, e := range t.Edges {
						pred := b.Preds[i]
						if derived[e] && (R[pred] || pred == callBlock) {
							derived[t] = true
							changed = true
						}
					}
				}
			}
		}
	}
	for _, b := range fn.Blocks {
		for _, ins := range b.Instrs {
			c, ok := ins.(*ssa.Call)
			if !ok {
				continue
			}
			bi, ok := c.Common().Value.(*ssa.Builtin)
			if !ok || len(c.Common().Args) == 0 || (bi.Name() != "append" && bi.Name() != "copy") {
				continue
			}
			dst := c.Common().Args[0]
			if !derived[dst] {
				continue
			}
			if dst == val && !after(c) {
				continue
			}
			if _, isPhi := dst.(*ssa.Phi); !isPhi && dst != val {
				if di, ok := dst.(ssa.Instruction); ok && !after(di) {
					continue
				}
			}
			return fmt.Sprintf("%s into the storage of the delivered slice at %s (it is kept after the delivery at %s)", bi.Name(), fn.Prog.Fset.Position(c.Pos()), fn.Prog.Fset.Position(call.Pos()))
		}
	}
	return ""
}
