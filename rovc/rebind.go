package main

// Rebinding under a renaming. A contract names cells, parameters and fields of the code. When a name it uses no longer
// exists (binding error) the unit would be UNDECIDED. Before giving up, rovc looks for a renaming: every identifier that
// exists in the function / struct but is not mentioned by the contract is tried in place of the missing one; if exactly
// one such substitution makes the whole contract bind again, the unit is verified under it (the contract is the same
// contract up to the name of a local). Then a pure rename passes, and a rename that comes with a change of behaviour
// fails the renamed contract's obligations - a violation, not an UNDECIDED.

import (
	"os/exec"
	"os"
	"fmt"
	"regexp"
	"sort"
	"strings"

	"golang.org/x/tools/go/ssa"
)

var (
	bindErrRe    = regexp.MustCompile(`unknown identifier|sort mismatch|does not bind|no such function|not accessed on this path|not reached from the operator`)
	unknownIDRe  = regexp.MustCompile(`unknown identifier ([A-Za-z_][A-Za-z0-9_]*)`)
	noNamedRe    = regexp.MustCompile(`no (?:parameter or captured variable|field or cell|function parameter) named ([A-Za-z_0-9, ]+)`)
	identTokenRe = regexp.MustCompile(`[A-Za-z_][A-Za-z0-9_]*`)
)

// substFields: the missing names that are struct fields (set by tryRebind for the duration of its trials).
var substFields = map[string]bool{}

func hasBindingErr(u *Unit) bool {
	for _, e := range u.Errs {
		if bindErrRe.MatchString(e) {
			return true
		}
	}
	return false
}

func missingNames(u *Unit) []string {
	set := map[string]bool{}
	for _, e := range u.Errs {
		for _, m := range unknownIDRe.FindAllStringSubmatch(e, -1) {
			set[m[1]] = true
		}
		for _, m := range regexp.MustCompile(`has no field ([A-Za-z_][A-Za-z0-9_]*)`).FindAllStringSubmatch(e, -1) {
			set[m[1]] = true
		}
		for _, m := range noNamedRe.FindAllStringSubmatch(e, -1) {
			for _, n := range strings.FieldsFunc(m[1], func(r rune) bool { return r == ',' || r == ' ' }) {
				set[n] = true
			}
		}
	}
	return sortedStrs(set)
}

// substText renames the identifier `from`. A parameter / variable rename leaves selector names (x.from) alone; a field
// rename (fieldToo) replaces them as well.
func substText(s, from, to string, fieldToo bool) string {
	re := regexp.MustCompile(`\b` + regexp.QuoteMeta(from) + `\b`)
	var b strings.Builder
	last := 0
	for _, loc := range re.FindAllStringIndex(s, -1) {
		b.WriteString(s[last:loc[0]])
		if !fieldToo && loc[0] > 0 && s[loc[0]-1] == '.' && !eventPrefixBefore(s, loc[0]-1) {
			b.WriteString(s[loc[0]:loc[1]])
		} else {
			b.WriteString(to)
		}
		last = loc[1]
	}
	b.WriteString(s[last:])
	return b.String()
}

var fieldMissRe = regexp.MustCompile(`no field or cell named ([A-Za-z_0-9, ]+)|has no field ([A-Za-z_][A-Za-z0-9_]*)`)

func fieldNamesMissing(u *Unit) map[string]bool {
	out := map[string]bool{}
	for _, e := range u.Errs {
		for _, m := range fieldMissRe.FindAllStringSubmatch(e, -1) {
			for _, g := range m[1:] {
				for _, n := range strings.FieldsFunc(g, func(r rune) bool { return r == ',' || r == ' ' }) {
					out[n] = true
				}
			}
		}
	}
	return out
}

func substBlock(b *Block, from, to string) *Block {
	nb := *b
	nb.Clauses = make([]Clause, len(b.Clauses))
	for i, c := range b.Clauses {
		c.Text = substText(c.Text, from, to, substFields[from])
		nb.Clauses[i] = c
	}
	return &nb
}

func mentionedIn(blocks ...*Block) map[string]bool {
	out := map[string]bool{}
	for _, b := range blocks {
		if b == nil {
			continue
		}
		for _, c := range b.Clauses {
			for _, id := range identTokenRe.FindAllString(c.Text, -1) {
				out[id] = true
			}
		}
	}
	return out
}

// substituted returns a copy of the context in which the type contract `typeName` (if any) and the loop contracts of the
// functions whose key starts with fnPrefix carry the renaming.
func (kc *kernelCtx) substituted(pkg, fnPrefix, typeName string, ren [][2]string) *kernelCtx {
	k2 := *kc
	k2.loops = map[string]*Block{}
	for k, lb := range kc.loops {
		if strings.HasPrefix(k, pkg+"::"+fnPrefix) {
			nb := lb
			for _, r := range ren {
				nb = substBlock(nb, r[0], r[1])
			}
			k2.loops[k] = nb
		} else {
			k2.loops[k] = lb
		}
	}
	if typeName != "" {
		if ts := kc.types[typeName]; ts != nil {
			nb := ts.Block
			for _, r := range ren {
				nb = substBlock(nb, r[0], r[1])
			}
			if nts, err := parseTypeSpec(nb); err == nil {
				k2.types = map[string]*TypeSpec{}
				for k, v := range kc.types {
					k2.types[k] = v
				}
				k2.types[typeName] = nts
			}
		}
	}
	return &k2
}

// tryRebind: run is the unit runner; avail lists the identifiers that exist in the code for this unit; extra are further
// blocks whose mentions count (the type block, loop blocks).
func (kc *kernelCtx) tryRebind(u *Unit, b *Block, fnPrefix, typeName string, avail []string, extra []*Block, run func(*kernelCtx, *Block) *Unit) *Unit {
	if !hasBindingErr(u) {
		return u
	}
	miss := missingNames(u)
	maxMiss := 2
	if b.first("scope") != nil {
		// with the scope fingerprint the candidates are exactly the identifiers that are new: a refactoring that renames
		// three or four things at once can still be followed
		maxMiss = 4
	}
	if len(miss) == 0 || len(miss) > maxMiss {
		return u
	}
	substFields = fieldNamesMissing(u)
	defer func() { substFields = map[string]bool{} }()
	ment := mentionedIn(append([]*Block{b}, extra...)...)
	// the identifiers that existed when the contract was written (`scope`, generated with `binds`): a renamed variable
	// is one that was not there
	var oldScope map[string]bool
	if sc := b.first("scope"); sc != nil {
		oldScope = map[string]bool{}
		for _, n := range strings.Fields(sc.Text) {
			oldScope[n] = true
		}
	}
	var cands []string
	seen := map[string]bool{}
	for _, a := range avail {
		if a == "" || a == "_" || ment[a] || seen[a] {
			continue
		}
		if oldScope != nil && oldScope[a] {
			continue
		}
		seen[a] = true
		cands = append(cands, a)
	}
	sort.Strings(cands)
	if len(cands) == 0 || len(cands) > 8 {
		return u
	}
	var good []*Unit
	var goodRen []string
	try := func(ren [][2]string) {
		nb := b
		for _, r := range ren {
			nb = substBlock(nb, r[0], r[1])
		}
		u2 := run(kc.substituted(b.Pkg, fnPrefix, typeName, ren), nb)
		if os.Getenv("ROVC_DEBUG") != "" {
			fmt.Fprintf(os.Stderr, "REBIND %s %v -> errs %v\n", b.Name, ren, u2.Errs)
		}
		if !hasBindingErr(u2) && !newErrors(u, u2) {
			var rs []string
			for _, r := range ren {
				rs = append(rs, r[0]+" -> "+r[1])
			}
			good = append(good, u2)
			goodRen = append(goodRen, strings.Join(rs, ", "))
		}
	}
	// every injective assignment of candidates to the missing names
	var assign func(i int, used map[string]bool, cur [][2]string)
	assign = func(i int, used map[string]bool, cur [][2]string) {
		if i == len(miss) {
			try(append([][2]string{}, cur...))
			return
		}
		for _, c := range cands {
			if used[c] {
				continue
			}
			used[c] = true
			assign(i+1, used, append(cur, [2]string{miss[i], c}))
			used[c] = false
		}
	}
	if len(miss) <= 2 || len(cands) <= 5 {
		assign(0, map[string]bool{}, nil)
	}
	if len(good) > 1 {
		// several renamings bind: keep those under which no obligation fails on its face (a closed fact that is false,
		// such as a lock that is not the one held). For unchanged behaviour the right renaming is always among them, so
		// a unique survivor is the right one; with none or several the contract stays unbound.
		var clean []*Unit
		var cleanRen []string
		for i, g := range good {
			bad := 0
			for _, o := range g.Obls {
				if o.Cover {
					continue
				}
				if o.Backend == "structural" && o.Status == "failed" {
					bad++
				}
				if o.Backend == "smt" && o.SMT != "" && quickSat(o.SMT) {
					bad++ // refuted at once: this reading of the names does not hold
				}
			}
			if bad == 0 {
				clean = append(clean, g)
				cleanRen = append(cleanRen, goodRen[i])
			}
		}
		if len(clean) == 1 {
			good, goodRen = clean, cleanRen
		}
	}
	if len(good) != 1 {
		if len(good) > 1 {
			u.Errs = append(u.Errs, fmt.Sprintf("%d renamings would make the contract bind again (%s): ambiguous, not applied", len(good), strings.Join(goodRen, " | ")))
		}
		return u
	}
	g := good[0]
	g.Rebound = goodRen[0]
	return g
}

// availFor lists the identifiers that exist around fn: parameters and captured variables up the closure chain, the named
// cells of the enclosing top-level function, and the fields of the receiver's struct.
func availFor(fn *ssa.Function) []string {
	var out []string
	top := fn
	for f := fn; f != nil; f = f.Parent() {
		top = f
		for _, p := range f.Params {
			out = append(out, p.Name())
		}
		for _, fv := range f.FreeVars {
			out = append(out, fv.Name())
		}
	}
	for n := range cellTypes(top) {
		out = append(out, n)
	}
	for _, f := range closureTree(top) {
		for _, p := range f.Params {
			out = append(out, p.Name())
		}
	}
	if top.Signature.Recv() != nil {
		if st, ok := isStruct(derefType(top.Signature.Recv().Type())); ok {
			for i := 0; i < st.NumFields(); i++ {
				out = append(out, st.Field(i).Name())
			}
		}
	}
	return out
}

// newErrors: the rebound unit reports something the original did not (an ill-sorted clause under a wrong candidate).
func newErrors(u, u2 *Unit) bool {
	old := map[string]bool{}
	for _, e := range u.Errs {
		old[e] = true
	}
	for _, e := range u2.Errs {
		if !old[e] {
			return true
		}
	}
	return false
}

// rebindClosure: see runFunc.
func (kc *kernelCtx) rebindClosure(u *Unit, b *Block) *Unit {
	i := strings.LastIndex(b.Name, "$")
	bc := b.first("binds")
	if i < 0 || bc == nil {
		return nil
	}
	relevant := false
	for _, e := range u.Errs {
		if strings.Contains(e, "no parameter or captured variable named") || strings.Contains(e, "no such function") {
			relevant = true
		}
	}
	if !relevant {
		return nil
	}
	parent := b.Name[:i]
	fns := kc.w.allFuncs(b.Pkg)
	want := strings.Fields(bc.Text)
	orig := fns[b.Name]
	var cands []string
	for k, f := range fns {
		if k == b.Name || !strings.HasPrefix(k, parent+"$") || strings.Contains(k[len(parent)+1:], "$") || f.Blocks == nil {
			continue
		}
		if _, claimed := kc.byBlk[b.Pkg+"::"+k]; claimed {
			// another contract is written for that closure; it may have moved too, but two contracts on one closure would be a guess
			continue
		}
		if orig != nil && len(orig.Params) != len(f.Params) {
			continue
		}
		have := map[string]bool{}
		for g := f; g != nil; g = g.Parent() {
			for _, p := range g.Params {
				have[p.Name()] = true
			}
			for _, fv := range g.FreeVars {
				have[fv.Name()] = true
			}
		}
		ok := true
		for _, n := range want {
			if !have[n] {
				ok = false
			}
		}
		if ok {
			cands = append(cands, k)
		}
	}
	if len(cands) != 1 {
		return nil
	}
	nb := *b
	nb.Name = cands[0]
	k2 := *kc
	k2.loops = map[string]*Block{}
	for k, lb := range kc.loops {
		k2.loops[k] = lb
		if strings.HasPrefix(k, b.Pkg+"::"+b.Name+"#") {
			k2.loops[b.Pkg+"::"+cands[0]+k[len(b.Pkg+"::"+b.Name):]] = lb
		}
	}
	u2 := k2.runFunc0(&nb)
	if hasBindingErr(u2) {
		return nil
	}
	// keep the obligation names of the contract (known findings and reports are keyed by them)
	for j := range u2.Obls {
		if strings.HasPrefix(u2.Obls[j].Name, qualName(&nb)) {
			u2.Obls[j].Name = qualName(b) + u2.Obls[j].Name[len(qualName(&nb)):]
		}
	}
	u2.Name = u.Name
	u2.Rebound = "closure " + b.Name + " is now " + cands[0]
	return u2
}

// eventPrefixBefore: the '.' at position dot follows an event kind that is named after a variable (lock.mu, unlock.mu,
// trylock.mu, chsend.ch, chrecv.ch, chclose.ch): what comes after it is that variable's name, not a field.
func eventPrefixBefore(s string, dot int) bool {
	j := dot
	for j > 0 && (s[j-1] == '_' || s[j-1] >= 'a' && s[j-1] <= 'z' || s[j-1] >= 'A' && s[j-1] <= 'Z' || s[j-1] >= '0' && s[j-1] <= '9') {
		j--
	}
	switch s[j:dot] {
	case "lock", "unlock", "trylock", "chsend", "chrecv", "chclose":
		return j == 0 || s[j-1] != '.'
	}
	return false
}

// quickSat asks the newest solver, with a short timeout, whether the negated obligation has a model (only used to choose
// between several renamings that all bind; the result never decides an obligation).
func quickSat(smt string) bool {
	cmd := exec.Command("z3-new", "-T:3", "-in")
	cmd.Stdin = strings.NewReader(strings.Replace(smt, "(get-model)", "", 1))
	out, _ := cmd.Output()
	first := strings.TrimSpace(strings.SplitN(string(out), "\n", 2)[0])
	return first == "sat"
}
