package main

import (
	"fmt"
	"go/ast"
	"go/types"
	"os"
	"go/token"
	"regexp"
	"sort"
	"strings"

	"golang.org/x/tools/go/ssa"
)

// ---------------------------------------------------------------------------
// Output: named obligations
// ---------------------------------------------------------------------------

type OutObl struct {
	Name     string   `json:"name"`
	Props    []string `json:"props"`
	Layer    string   `json:"layer"`
	Func     string   `json:"func"`
	Clause   string   `json:"clause"`
	Pos      string   `json:"pos,omitempty"`
	Backend  string   `json:"backend"` // "smt" (to be discharged) | "structural" (closed fact) | "error"
	Status   string   `json:"status"`  // structural: discharged|failed ; error: undecided
	SMT      string   `json:"smt,omitempty"`
	Note     string   `json:"note,omitempty"`
	Paths    int      `json:"paths,omitempty"`
	Cover    bool     `json:"cover,omitempty"` // vacuity cover: expected sat
	Assumes  []string `json:"assumes,omitempty"`
	Contract string   `json:"contract_file,omitempty"`
}

// countLoopHeaders: the number of loops of a function (blocks that dominate one of their predecessors).
func countLoopHeaders(fn *ssa.Function) int {
	n := 0
	for _, b := range fn.Blocks {
		for _, p := range b.Preds {
			if b.Dominates(p) {
				n++
				break
			}
		}
	}
	return n
}

type Unit struct {
	Rebound string // non-empty: the contract was verified under this renaming of identifiers (see rebind.go)
	Name  string
	Props []string
	Layer string
	Obls  []OutObl
	Funcs []string // functions under contract in this unit
	Errs  []string
}

var debugPaths bool

const smtPrelude = "(set-logic ALL)\n"

// mergeObls turns per-path obligations into one query per obligation name.
func mergeObls(d *Decls, name string, items []Obl) (smt string, trivial bool, failedLiteral bool) {
	var ds []string
	trivial = true
	for _, o := range items {
		if o.Goal == "true" {
			continue
		}
		trivial = false
		ds = append(ds, and(append(append([]string{}, o.PC...), not(o.Goal))...))
	}
	if trivial {
		return "", true, false
	}
	var b strings.Builder
	b.WriteString(smtPrelude)
	b.WriteString(d.smt())
	b.WriteString("(assert " + or(ds...) + ")\n(check-sat)\n(get-model)\n")
	return b.String(), false, false
}

func coverQuery(d *Decls, pcs [][]string) string {
	var ds []string
	for _, pc := range pcs {
		ds = append(ds, and(pc...))
	}
	var b strings.Builder
	b.WriteString(smtPrelude)
	b.WriteString(d.smt())
	b.WriteString("(assert " + or(ds...) + ")\n(check-sat)\n")
	return b.String()
}

// ---------------------------------------------------------------------------
// Type contracts
// ---------------------------------------------------------------------------

type onEventSpec struct {
	Pattern  string
	Requires []string
	Sets     [][2]string
	Label    string
}

type TypeSpec struct {
	Name    string
	Atomic  map[string][2]string // field -> rely, guar (expressions over old,new)
	Const   map[string]bool
	Free    map[string]bool // fields with no discipline claimed (documented)
	Sync    map[string]bool // fields holding an internally synchronised value (sync.Map, sync.Once): used through their methods only
	Ghost   map[string]string
	Prot    map[string]string // field or ghost -> lock
	LockInv map[string][]string
	LockGuar map[string][]Clause
	OnEvent []onEventSpec
	Block   *Block
	CellTypes map[string]types.Type // closure environments: types of the captured cells
	Env     string                  // closure environment: the top-level function whose cells are meant
}

func parseTypeSpec(b *Block) (*TypeSpec, error) {
	ts := &TypeSpec{Name: b.Name, Atomic: map[string][2]string{}, Const: map[string]bool{}, Free: map[string]bool{}, Sync: map[string]bool{}, Ghost: map[string]string{}, Prot: map[string]string{}, LockInv: map[string][]string{}, LockGuar: map[string][]Clause{}, Block: b}
	for _, c := range b.Clauses {
		switch c.Kind {
		case "atomic":
			// atomic <field> : rely <expr> ; guar <expr>
			f, rest := splitWord(c.Text)
			rest = strings.TrimPrefix(strings.TrimSpace(rest), ":")
			var rely, guar string
			for _, part := range splitTop(rest, ";") {
				w, r := splitWord(part)
				switch w {
				case "rely":
					rely = r
				case "guar":
					guar = r
				}
			}
			ts.Atomic[f] = [2]string{rely, guar}
		case "const":
			for _, f := range strings.Fields(c.Text) {
				ts.Const[f] = true
			}
		case "free":
			for _, f := range strings.Fields(c.Text) {
				ts.Free[f] = true
			}
		case "sync":
			for _, f := range strings.Fields(c.Text) {
				ts.Sync[f] = true
			}
		case "ghost":
			fs := strings.Fields(c.Text)
			if len(fs) != 2 {
				return nil, fmt.Errorf("%s:%d: ghost <name> <int|bool>", c.File, c.Line)
			}
			sort := "Int"
			if fs[1] == "bool" {
				sort = "Bool"
			}
			ts.Ghost[fs[0]] = sort
		case "lock":
			// lock <mu> protects a b c
			fs := strings.Fields(c.Text)
			if len(fs) < 2 || fs[1] != "protects" {
				return nil, fmt.Errorf("%s:%d: lock <name> protects <fields>", c.File, c.Line)
			}
			for _, f := range fs[2:] {
				ts.Prot[f] = fs[0]
			}
			if _, ok := ts.LockInv[fs[0]]; !ok {
				ts.LockInv[fs[0]] = nil
			}
		case "lockinv":
			l, rest := splitWord(c.Text)
			rest = strings.TrimPrefix(strings.TrimSpace(rest), ":")
			ts.LockInv[l] = append(ts.LockInv[l], strings.TrimSpace(rest))
		case "lockguar":
			l, rest := splitWord(c.Text)
			rest = strings.TrimPrefix(strings.TrimSpace(rest), ":")
			cc := c
			cc.Text = strings.TrimSpace(rest)
			ts.LockGuar[l] = append(ts.LockGuar[l], cc)
		case "onevent":
			// onevent <pattern> : requires e ; sets g = e
			pat, rest := splitWord(c.Text)
			rest = strings.TrimPrefix(strings.TrimSpace(rest), ":")
			oe := onEventSpec{Pattern: pat, Label: c.Label}
			for _, part := range splitTop(rest, ";") {
				w, r := splitWord(part)
				switch w {
				case "requires":
					oe.Requires = append(oe.Requires, r)
				case "sets":
					kv := strings.SplitN(r, "=", 2)
					if len(kv) == 2 {
						oe.Sets = append(oe.Sets, [2]string{strings.TrimSpace(kv[0]), strings.TrimSpace(kv[1])})
					}
				}
			}
			ts.OnEvent = append(ts.OnEvent, oe)
		case "env":
			ts.Env = strings.TrimSpace(c.Text)
		case "props", "note", "recv", "promoted":
		default:
			return nil, fmt.Errorf("%s:%d: unknown type clause %q", c.File, c.Line, c.Kind)
		}
	}
	return ts, nil
}

// ---------------------------------------------------------------------------
// Function units (layer K)
// ---------------------------------------------------------------------------

type kernelCtx struct {
	strictCalls   bool // a re-binding is being tried: the call fingerprint must hold
	outerFallback bool // binds may resolve to cells of the enclosing function (last resort, see runFunc)
	w      *World
	blocks []*Block
	types  map[string]*TypeSpec
	funcs  map[string]*ssa.Function // by funcKey, package of the block
	byBlk  map[string]*Block        // func blocks by name
	pures  map[string]*Block
	loops  map[string]*Block
	mentioned map[string]bool // identifiers appearing anywhere in the contract files
}

func newKernelCtx(w *World, blocks []*Block) (*kernelCtx, error) {
	kc := &kernelCtx{w: w, blocks: blocks, types: map[string]*TypeSpec{}, byBlk: map[string]*Block{}, pures: map[string]*Block{}, loops: map[string]*Block{}}
	for _, b := range blocks {
		switch b.Kind {
		case "type":
			ts, err := parseTypeSpec(b)
			if err != nil {
				return nil, err
			}
			kc.types[b.Name] = ts
		case "func":
			kc.byBlk[b.Pkg+"::"+b.Name] = b
		case "pure":
			kc.pures[b.Pkg+"::"+b.Name] = b
		case "loop":
			kc.loops[b.Pkg+"::"+b.Name] = b
		}
	}
	return kc, nil
}

var labelProps = regexp.MustCompile(`^([^|]*)\|(.*)$`)

func clauseLabel(c Clause, idx int) (label string, props []string) {
	label = c.Label
	if m := labelProps.FindStringSubmatch(label); m != nil {
		label = strings.TrimSpace(m[1])
		props = strings.FieldsFunc(m[2], func(r rune) bool { return r == ',' || r == ' ' })
	}
	if label == "" {
		label = fmt.Sprintf("#%d", idx)
	}
	return
}

// qualName prefixes contracts of non-root packages with their short path (plugins/strconv.Atoi$1).
func qualName(b *Block) string {
	if b.Pkg == roPath || b.Pkg == "" {
		return b.Name
	}
	return strings.TrimPrefix(b.Pkg, roPath+"/") + "." + b.Name
}

func (kc *kernelCtx) runFunc(b *Block) *Unit {
	u := kc.runFunc0(b)
	if !hasBindingErr(u) {
		return u
	}
	// a closure contract (F$1$2) whose closure moved: inserting or removing a function literal renumbers its siblings. If
	// exactly one sibling closure has every name the contract binds (and the same arity), the contract is run against it.
	if u2 := kc.rebindClosure(u, b); u2 != nil {
		return u2
	}
	fn := kc.w.allFuncs(b.Pkg)[b.Name]
	if fn == nil {
		return u
	}
	typeName := ""
	outer := fn
	for outer.Parent() != nil {
		outer = outer.Parent()
	}
	if outer.Signature.Recv() != nil {
		typeName = recvTypeName(outer)
	}
	if c := b.first("type"); c != nil {
		typeName = strings.TrimSpace(c.Text)
	}
	var extra []*Block
	if ts := kc.types[typeName]; ts != nil {
		extra = append(extra, ts.Block)
	}
	for k, lb := range kc.loops {
		if strings.HasPrefix(k, b.Pkg+"::"+b.Name) {
			extra = append(extra, lb)
		}
	}
	u3 := kc.tryRebind(u, b, b.Name, typeName, availFor(fn), extra, func(k2 *kernelCtx, nb *Block) *Unit { k2.strictCalls = true; return k2.runFunc0(nb) })
	if !hasBindingErr(u3) {
		return u3
	}
	// neither a moved closure nor a renaming: a name the closure no longer captures but that is still a cell of the
	// enclosing function denotes that cell (the closure leaves it alone; see runFunc0)
	kc.outerFallback = true
	u4 := kc.runFunc0(b)
	kc.outerFallback = false
	if !hasBindingErr(u4) {
		return u4
	}
	return u3
}

func (kc *kernelCtx) runFunc0(b *Block) *Unit {
	u := &Unit{Name: qualName(b), Props: b.props(), Layer: "K"}
	fns := kc.w.allFuncs(b.Pkg)
	fn := fns[b.Name]
	if fn == nil {
		u.Errs = append(u.Errs, fmt.Sprintf("contract %s (%s:%d) does not bind: no such function in %s", b.Name, shortFile(b.File), b.Line, b.Pkg))
		return u
	}
	u.Funcs = append(u.Funcs, b.Name)
	d := newDecls()
	x := newExec(kc.w, d)
	var ts *TypeSpec
	recvName := ""
	outer := fn
	for outer.Parent() != nil {
		outer = outer.Parent()
	}
	if outer.Signature.Recv() != nil {
		// a method, or a closure declared inside a method: the receiver's type contract applies
		ts = kc.types[recvTypeName(outer)]
		if len(outer.Params) > 0 {
			recvName = outer.Params[0].Name()
		}
	}
	if c := b.first("type"); c != nil {
		ts = kc.types[strings.TrimSpace(c.Text)]
		if ts != nil && ts.Env != "" {
			recvName = ""
			if top := fns[ts.Env]; top != nil && ts.CellTypes == nil {
				ts.CellTypes = cellTypes(top)
			}
		}
	}
	if c := b.first("recv"); c != nil {
		recvName = strings.TrimSpace(c.Text)
	}
	// the names the contract was written against (`binds`, generated by tools/mkbinds.py): parameters and captured variables of
	// the function. A renamed one would otherwise resolve to some other cell of the same name, or to an event name that
	// never occurs, and fail for no semantic reason.
	outerCells := map[string]types.Type{}
	if c := b.first("binds"); c != nil {
		have := map[string]bool{}
		for f := fn; f != nil; f = f.Parent() {
			for _, p := range f.Params {
				have[p.Name()] = true
			}
			for _, fv := range f.FreeVars {
				have[fv.Name()] = true
			}
		}
		// a cell of an enclosing function that this closure no longer reads (`done := ... completedB && len(valueC) == 0`
		// where the contract says completedC): the name still denotes that cell; the closure simply leaves it alone, and
		// its value is whatever it is - which is the point when the contract says the outcome depends on it
		sameCalls := false
		if cc := b.first("calls"); cc != nil {
			sameCalls = strings.Join(strings.Fields(cc.Text), " ") == strings.Join(callFingerprint(fn), " ")
		}
		sameParams := true
		if pc := b.first("params"); pc != nil {
			// the closure has the parameters the contract was written for (inserting a function literal shifts the
			// ordinals of its siblings: $3 is then another callback)
			var ps []string
			for _, prm := range fn.Params {
				ps = append(ps, prm.Name())
			}
			if len(ps) == 0 {
				ps = []string{"-"}
			}
			sameParams = strings.Join(strings.Fields(pc.Text), " ") == strings.Join(ps, " ")
			if !sameParams {
				u.Errs = append(u.Errs, fmt.Sprintf("contract %s does not bind: its parameters were (%s); the closure of that ordinal has (%s)", b.Name, strings.Join(strings.Fields(pc.Text), " "), strings.Join(ps, " ")))
			}
		} else {
			sameCalls = false
		}
		if (kc.strictCalls || kc.outerFallback) && b.first("calls") != nil && !sameCalls {
			// the contract did not bind as written (a renaming or a dropped capture is being tried): the closure must
			// at least still call what it called
			u.Errs = append(u.Errs, fmt.Sprintf("contract %s does not bind: the closure of that ordinal calls other things than the one the contract was written for", b.Name))
		}
		if top := outermost(fn); top != fn && kc.outerFallback && sameCalls && sameParams {
			for n, t := range cellTypes(top) {
				if !have[n] {
					have[n] = true
					outerCells[n] = t
				}
			}
		}
		var missing []string
		for _, n := range strings.Fields(c.Text) {
			if !have[n] {
				missing = append(missing, n)
			}
		}
		if len(missing) > 0 {
			u.Errs = append(u.Errs, fmt.Sprintf("contract %s does not bind: no parameter or captured variable named %s", b.Name, strings.Join(missing, ", ")))
		}
	}
	// the type contract must still bind: every field / cell it names exists (a renamed field makes every obligation of the
	// type's functions meaningless - reported as "does not bind", never as a violation)
	if ts != nil {
		if missing := kc.typeSpecUnbound(ts, outer, fns); len(missing) > 0 {
			u.Errs = append(u.Errs, fmt.Sprintf("contract of type %s does not bind: no field or cell named %s", ts.Name, strings.Join(missing, ", ")))
		}
	}
	x.RecvName = recvName
	x.PanicForks = b.first("panicforks") != nil
	inline := map[string]bool{}
	for _, c := range b.all("inline") {
		for _, f := range strings.Fields(c.Text) {
			inline[f] = true
		}
	}
	alias := map[string]string{}
	for _, c := range b.all("alias") {
		for _, f := range strings.Fields(c.Text) {
			kv := strings.SplitN(f, "=", 2)
			if len(kv) == 2 {
				alias[kv[0]] = kv[1]
			}
		}
	}
	var track []string
	for _, c := range b.all("track") {
		track = append(track, strings.Fields(c.Text)...)
	}
	trackFn := func(name string) bool {
		if len(track) == 0 {
			return !strings.HasPrefix(name, "loop:") && !strings.HasPrefix(name, "lock:") && !strings.HasPrefix(name, "unlock:") && !strings.HasPrefix(name, "trylock:")
		}
		for _, p := range track {
			if eventNameMatch(normEventName(p), name) {
				return true
			}
		}
		return false
	}
	fields := map[string]bool{}
	if ts != nil {
		for f := range ts.Atomic {
			fields[f] = true
		}
		for f := range ts.Const {
			fields[f] = true
		}
		for f := range ts.Free {
			fields[f] = true
		}
		for f := range ts.Sync {
			fields[f] = true
		}
		for f := range ts.Prot {
			if _, isGhost := ts.Ghost[f]; !isGhost {
				fields[f] = true
			}
		}
	}
	idents := map[string]bool{}
	for _, n := range availFor(fn) {
		idents[n] = true
	}
	patSeen := map[string]bool{}
	mkEnv := func(st *State, ex *Exit) *Env {
		env := &Env{X: x, St: st, Vars: map[string]SVal{}, PatSeen: patSeen, Recv: recvName, Fields: fields, FieldType: func(f string) types.Type {
			if ts == nil {
				return nil
			}
			return kc.cellOrFieldType(ts, f)
		}, Events: st.Events, Track: trackFn, Alias: alias, Exit: ex, UserFn: map[string]bool{}, Idents: idents}
		if len(st.Frames) > 0 {
			fr := st.Frames[0]
			for _, p := range fr.Fn.Params {
				if v, ok := fr.Vals[p]; ok {
					env.Vars[p.Name()] = v
				}
			}
		}
		if ts != nil && ts.CellTypes != nil {
			env.CellType = func(n string) types.Type { return ts.CellTypes[n] }
		}
		return env
	}
	x.H = kc.hooks(b, ts, recvName, inline, mkEnv)
	// initial state
	st := &State{Heap: map[string]SVal{}, Zero: map[string]bool{}, Init: map[string]SVal{}, Held: map[string]bool{}, Ghost: map[string]string{}, Named: map[string]string{}, NamedV: map[string]SVal{}, Written: map[string]bool{}}
	if ts != nil {
		for g, sort := range ts.Ghost {
			st.Ghost[g] = q(d.constOf(g+"@pre", sort))
			st.Named["ghostsort:"+g] = sort
			st.Named["ghost0:"+g] = st.Ghost[g]
		}
	}
	var args []SVal
	for _, p := range fn.Params {
		args = append(args, x.paramVal(st, p))
	}
	// `field <name>` declarations force creation of pre-state symbols so ensures may mention untouched fields
	type endPath struct {
		st *State
		ex Exit
	}
	var ends []endPath
	// requires are assumed after parameters exist
	pre := func(st *State) {
		env := mkEnv(st, nil)
		for i, p := range fn.Params {
			env.Vars[p.Name()] = args[i]
		}
		if c := b.first("binds"); c != nil {
			for _, n := range strings.Fields(c.Text) {
				if t, ok := outerCells[n]; ok {
					x.load(st, n, t, token.NoPos) // pre-state symbol of an enclosing function's cell the closure does not read
				}
			}
		}
		if len(b.all("requires")) > 0 {
			// captured variables a precondition may mention: their pre-state symbols
			for _, fv := range fn.FreeVars {
				if pt, ok := fv.Type().Underlying().(*types.Pointer); ok {
					x.load(st, fv.Name(), pt.Elem(), token.NoPos)
				}
			}
		}
		for _, c := range b.all("requires") {
			g, err := env.evalBool(c.Text)
			if err != nil {
				u.Errs = append(u.Errs, fmt.Sprintf("%s:%d requires: %v", shortFile(c.File), c.Line, err))
				continue
			}
			st.assume(g)
		}
	}
	// touch declared fields so that they have initial symbols
	if ts != nil && fn.Signature.Recv() != nil {
		if pt, ok := fn.Params[0].Type().Underlying().(interface{ Elem() interface{} }); ok {
			_ = pt
		}
	}
	initiallyHeld := map[string]bool{}
	for _, c := range b.all("holding") {
		for _, l := range strings.Fields(c.Text) {
			st.Held[l] = true
			initiallyHeld[l] = true
		}
	}
	fr0 := &Frame{Fn: fn, Vals: map[ssa.Value]SVal{}, LoopMark: map[int]int{}}
	for i, p := range fn.Params {
		fr0.Vals[p] = args[i]
	}
	st.Frames = []*Frame{fr0}
	pre(st)
	st.Frames = nil
	x.run(st, fn, args, nil, func(st2 *State, ex Exit) {
		ends = append(ends, endPath{st2, ex})
	})
	if debugPaths {
		for i, e := range ends {
			fmt.Fprintf(os.Stderr, "== %s path %d exit=%d err=%q\n", b.Name, i, e.ex.Kind, e.st.Err)
			for _, ev := range e.st.Events {
				var as []string
				for _, a := range ev.Args {
					as = append(as, a.String())
				}
				fmt.Fprintf(os.Stderr, "   ev %s(%s) held=%v\n", ev.Name, strings.Join(as, ", "), ev.Held)
			}
			fmt.Fprintf(os.Stderr, "   named=%v\n   pc=%v\n", e.st.Named, e.st.PC)
		}
	}
	// collect obligations
	byName := map[string][]Obl{}
	meta := map[string]Obl{}
	propsOf := map[string][]string{}
	var pcs [][]string
	npaths := 0
	for _, e := range ends {
		if e.st.Err != "" {
			u.Errs = append(u.Errs, e.st.Err)
			continue
		}
		for _, o := range e.st.Obls {
			// `trusted <obligation> : <reason>`: a safety obligation the contract leaves to an argument outside the
			// verifier (reported with the assumptions, never counted as discharged)
			skip := false
			for _, c := range b.all("trusted") {
				if strings.TrimSpace(strings.SplitN(c.Text, ":", 2)[0]) == o.Name {
					skip = true
				}
			}
			if skip {
				continue
			}
			byName[o.Name] = append(byName[o.Name], o)
			if _, ok := meta[o.Name]; !ok {
				meta[o.Name] = o
			}
		}
		if e.ex.Kind == ExitStop {
			continue
		}
		npaths++
		pcs = append(pcs, e.st.PC)
		// frames were popped: re-create vars for env from args
		env := mkEnv(e.st, &e.ex)
		for i, p := range fn.Params {
			env.Vars[p.Name()] = args[i]
		}
		add := func(name, goal, note string, props []string, c *Clause) {
			o := Obl{Name: name, Goal: goal, PC: e.st.PC, Note: note}
			byName[name] = append(byName[name], o)
			if _, ok := meta[name]; !ok {
				meta[name] = o
			}
			if len(props) > 0 {
				propsOf[name] = props
			}
		}
		if b.first("maypanic") == nil {
			add("nopanic", boolLit(e.ex.Kind != ExitPanic), "the function does not panic", nil, nil)
		}
		if ts != nil && len(ts.LockInv) > 0 || b.first("nolockleak") != nil {
			same := len(e.st.Held) == len(initiallyHeld)
			for l := range initiallyHeld {
				if !e.st.Held[l] {
					same = false
				}
			}
			add("nolockleak", boolLit(same), "the locks held on exit (including panic exits) are exactly those held on entry", nil, nil)
		}
		for i, c := range b.all("ensures") {
			label, props := clauseLabel(c, i)
			if e.ex.Kind == ExitPanic && !strings.Contains(c.Text, "panics") {
				continue
			}
			g, err := env.evalBool(c.Text)
			if err != nil {
				u.Errs = append(u.Errs, fmt.Sprintf("%s:%d ensures[%s]: %v", shortFile(c.File), c.Line, label, err))
				add("ensures:"+label, "false", "clause could not be evaluated on a path: "+err.Error(), props, &c)
				continue
			}
			add("ensures:"+label, g, c.Text, props, &c)
		}
	}
	// a lock-discipline clause about events that no path of the function ever produces says nothing: the name it uses
	// (an alias, a receiver variable) no longer denotes what the code calls - a binding problem, not a proof
	for _, pat := range sortedStrs(patSeenFalse(patSeen)) {
		u.Errs = append(u.Errs, fmt.Sprintf("contract %s does not bind: no event of the function matches %s (named by heldat / notheldat)", b.Name, pat))
	}
	names := make([]string, 0, len(byName))
	for n := range byName {
		names = append(names, n)
	}
	sort.Strings(names)
	for _, n := range names {
		smt, trivial, _ := mergeObls(d, n, byName[n])
		props := u.Props
		if p, ok := propsOf[n]; ok {
			props = p
		}
		o := OutObl{Name: qualName(b) + "/" + n, Props: props, Layer: "K", Func: qualName(b), Clause: meta[n].Note, Pos: x.pos(meta[n].Pos), Paths: len(byName[n]), Contract: shortFile(b.File)}
		if trivial {
			o.Backend, o.Status = "structural", "discharged"
		} else {
			o.Backend, o.SMT = "smt", smt
		}
		u.Obls = append(u.Obls, o)
	}
	if npaths > 0 {
		u.Obls = append(u.Obls, OutObl{Name: qualName(b) + "/cover", Props: u.Props, Layer: "K", Func: qualName(b), Clause: "vacuity cover: some path satisfies the preconditions and invariants", Backend: "smt", SMT: coverQuery(d, pcs), Cover: true, Paths: npaths, Contract: shortFile(b.File)})
	} else {
		u.Errs = append(u.Errs, "no complete path through "+b.Name)
	}
	u.Errs = dedup(u.Errs)
	return u
}

// pureSpec: an uninterpreted callee; `nonnil` adds the assumed fact that its result is not nil.
func pureSpec(name string, pb *Block) *CalleeSpec {
	cs := &CalleeSpec{Pure: name}
	if pb.first("nonnil") != nil {
		cs.Post = func(x *Exec, st *State, args []SVal, res []SVal) {
			for _, r := range res {
				if r.K == KU {
					st.assume(not(eq(r.T, "nil")))
				}
			}
		}
	}
	return cs
}

func dedup(xs []string) []string {
	seen := map[string]bool{}
	var out []string
	for _, x := range xs {
		if !seen[x] {
			seen[x] = true
			out = append(out, x)
		}
	}
	return out
}

// hooks builds the executor hooks implementing the type contract of the receiver.
func (kc *kernelCtx) hooks(b *Block, ts *TypeSpec, recv string, inline map[string]bool, mkEnv func(*State, *Exit) *Env) Hooks {
	fieldOf := func(key string) (string, bool) {
		if recv == "" {
			// a closure environment: the "fields" are the captured cells declared by the type contract
			f := key
			if i := strings.IndexAny(f, ".["); i >= 0 {
				f = f[:i]
			}
			if ts == nil {
				return "", false
			}
			_, a := ts.Atomic[f]
			_, p := ts.Prot[f]
			if a || p || ts.Const[f] || ts.Free[f] || ts.Sync[f] {
				return f, true
			}
			return "", false
		}
		if !strings.HasPrefix(key, recv+".") {
			return "", false
		}
		f := key[len(recv)+1:]
		if i := strings.IndexAny(f, ".["); i >= 0 {
			f = f[:i]
		}
		return f, true
	}
	cellKey := func(f string) string {
		if recv == "" {
			return f
		}
		return recv + "." + f
	}
	h := Hooks{}
	h.EvalExpr = func(x *Exec, st *State, expr string) (string, error) {
		env := mkEnv(st, nil)
		return env.evalBool(expr)
	}
	h.Loop = func(fn *ssa.Function, ord int) *LoopSpec {
		lb := kc.loops[b.Pkg+"::"+fmt.Sprintf("%s#%d", funcKey(fn), ord)]
		ls := &LoopSpec{Name: fmt.Sprintf("loop#%d", ord)}
		if lb == nil && fn.Parent() != nil && ord == 0 && countLoopHeaders(fn) == 1 {
			// a loop that moved into a closure of the function (a deferred replay, a helper literal): the function's
			// loop contract that no longer has a loop of its own is tried on it. The contract is checked on the moved
			// loop like on any other (established, preserved, iteration); when it does not hold there the unit is
			// undecided ("(rebound)" in the obligation names), never a violation.
			root := fn
			for root.Parent() != nil {
				root = root.Parent()
			}
			n := countLoopHeaders(root)
			var orphans []int
			for k := n; k < n+8; k++ {
				if kc.loops[b.Pkg+"::"+fmt.Sprintf("%s#%d", funcKey(root), k)] != nil {
					orphans = append(orphans, k)
				}
			}
			if len(orphans) == 1 {
				lb = kc.loops[b.Pkg+"::"+fmt.Sprintf("%s#%d", funcKey(root), orphans[0])]
				ls.Name = fmt.Sprintf("loop#%d(rebound)", orphans[0])
				ls.EvOrd = orphans[0] + 1
			}
		}
		if lb == nil {
			return nil
		}
		for _, c := range lb.all("invariant") {
			ls.Invariant = append(ls.Invariant, c.Text)
		}
		ls.NoExit = lb.first("noexit") != nil
		for _, c := range lb.all("exit") {
			ls.Exit = append(ls.Exit, c.Text)
		}
		for _, c := range lb.all("iteration") {
			w, r := splitWord(c.Text)
			if w == "ensures" {
				ls.IterEnsures = append(ls.IterEnsures, r)
			}
			if w == "advances" {
				ls.IterAdvances = append(ls.IterAdvances, r)
			}
			if w == "emits" {
				ls.IterEmits = append(ls.IterEmits, splitTop(r, ",")...)
				if strings.TrimSpace(r) == "" {
					ls.IterEmits = []string{}
				}
			}
		}
		return ls
	}
	h.IterEnsures = func(x *Exec, st *State, ls *LoopSpec, evs []Event) []string {
		env := mkEnv(st, nil)
		env.Events = evs
		var out []string
		for _, e := range ls.IterEnsures {
			g, err := env.evalBool(e)
			if err != nil {
				if strings.Contains(err.Error(), "unknown identifier") {
					x.unsupp(st, "loop contract: %v", err)
				}
				if os.Getenv("ROVC_DEBUG") != "" {
					fmt.Fprintf(os.Stderr, "ITER-ENSURES %s: %v\n", e, err)
				}
				g = "false"
			}
			out = append(out, g)
		}
		return out
	}
	h.MatchIter = func(x *Exec, st *State, ls *LoopSpec, evs []Event) string {
		env := mkEnv(st, nil)
		var pats []string
		var patNames []string
		for _, p := range ls.IterEmits {
			if strings.TrimSpace(p) != "" {
				pats = append(pats, strings.TrimSpace(p))
				if ex, err := parseSpecExpr(strings.TrimSpace(p)); err == nil {
					if call, ok := ex.(*ast.CallExpr); ok {
						patNames = append(patNames, env.resolveEventName(exprString(call.Fun)))
					} else {
						patNames = append(patNames, env.resolveEventName(exprString(ex)))
					}
				}
			}
		}
		// an iteration is matched on the events the enclosing contract tracks plus the kinds its own patterns name
		var tracked []Event
		for _, ev := range evs {
			ok := env.Track(ev.Name) && !strings.HasPrefix(ev.Name, "call:") && !strings.HasPrefix(ev.Name, "chmake")
			for _, pn := range patNames {
				if eventNameMatch(pn, ev.Name) {
					ok = true
				}
			}
			if strings.HasPrefix(ev.Name, "destination.") {
				ok = true
			}
			if ok {
				tracked = append(tracked, ev)
			}
		}
		if len(tracked) != len(pats) {
			if os.Getenv("ROVC_DEBUG") != "" {
				for _, ev := range evs {
					fmt.Fprintf(os.Stderr, "ITER-EVENT %s %s\n", ls.Name, ev.Name)
				}
			}
			return "false"
		}
		var cs []string
		for i, p := range pats {
			ex, err := parseSpecExpr(p)
			if err != nil {
				return "false"
			}
			c, err := env.matchEvent(ex, tracked[i])
			if err != nil {
				x.unsupp(st, "loop contract %s: %v", p, err) // e.g. an identifier the contract names no longer exists: the unit does not bind
				return "false"
			}
			cs = append(cs, c)
		}
		return and(cs...)
	}
	h.Callee = func(fn *ssa.Function) *CalleeSpec {
		key := funcKey(fn)
		if inline[key] || inline[fn.Name()] {
			return &CalleeSpec{Inline: true}
		}
		if fb := kc.byBlk[pkgPathOf(fn)+"::"+key]; fb != nil && fb.first("modular") != nil {
			return &CalleeSpec{Modular: fb, Post: func(x *Exec, st *State, args []SVal, res []SVal) {
				// caller side of the modular rule: assume the callee's postconditions about the results
				vars := map[string]SVal{}
				for i, p := range fn.Params {
					if i < len(args) {
						vars[p.Name()] = args[i]
					}
				}
				ex := &Exit{Kind: ExitReturn, Results: res}
				env := &Env{X: x, St: st, Vars: vars, Exit: ex, UserFn: map[string]bool{}}
				for _, c := range fb.all("ensures") {
					if g, err := env.evalBool(c.Text); err == nil {
						st.assume(g)
					}
				}
			}}
		}
		if pb := kc.pures[b.Pkg+"::"+key]; pb != nil {
			name := key
			if c := pb.first("as"); c != nil {
				name = strings.TrimSpace(c.Text)
			}
			return pureSpec(name, pb)
		}
		if pb := kc.pures[pkgPathOf(fn)+"::"+key]; pb != nil {
			name := key
			if c := pb.first("as"); c != nil {
				name = strings.TrimSpace(c.Text)
			}
			return pureSpec(name, pb)
		}
		// a private helper of the same package that no contract knows (by a block of its own or by naming its call as an
		// event) is part of its caller: it is executed in place, so that extracting a few lines into a helper changes nothing
		if ok, why := kc.privateHelper(fn, b.Pkg); ok {
			return &CalleeSpec{Inline: true}
		} else if why != "" {
			return &CalleeSpec{Unsupported: why}
		}
		return nil
	}
	// an atomic field of ANOTHER object (reached through a pointer or a type assertion, not the receiver): the guarantee
	// its type declares binds every writer, wherever the write is made (NewSubscriber* re-arming the status word of the
	// subscriber it is handed)
	foreignGuar := func(x *Exec, st *State, key, old, nu string, pos token.Pos) bool {
		base, f := "", ""
		if i := strings.Index(key, "->"); i > 0 {
			base, f = key, key[i+2:]
		} else if i := strings.Index(key, "^."); i > 0 {
			base, f = key[:i+1], key[i+2:]
		} else {
			return false
		}
		if tn := st.Named["typeof:"+base]; tn != "" {
			if ots := kc.types[tn]; ots != nil {
				if a, ok := ots.Atomic[f]; ok && a[1] != "" {
					x.obl(st, "guar:"+tn+"."+f, kc.evalOldNew(a[1], old, nu), "atomic write to a field of another object respects the guarantee its type declares: "+a[1], pos)
				}
			}
		}
		return true
	}
	if ts == nil {
		h.AtomicWrite = func(x *Exec, st *State, key, old, nu string, pos token.Pos) {
			foreignGuar(x, st, key, old, nu, pos)
		}
		return h
	}
	h.FieldAccess = func(x *Exec, st *State, key string, write bool, val *SVal, pos token.Pos) {
		isAtomic := strings.HasPrefix(key, "atomic:")
		key = strings.TrimPrefix(key, "atomic:")
		f, ok := fieldOf(key)
		if !ok {
			return
		}
		if _, ok := ts.Atomic[f]; ok {
			if !isAtomic {
				x.obl(st, "atomic-only:"+f, "false", "field "+f+" is declared atomic but accessed plainly", pos)
			}
			return
		}
		if isAtomic {
			x.obl(st, "undeclared-atomic:"+f, "false", "atomic access to a field not declared atomic", pos)
			return
		}
		if ts.Const[f] {
			if write {
				x.obl(st, "frame/const:"+f, "false", "field "+f+" is declared constant after construction but is written", pos)
			}
			return
		}
		if ts.Free[f] {
			return
		}
		if ts.Sync[f] {
			if write {
				x.obl(st, "sync-only:"+f, "false", "field "+f+" holds an internally synchronised value and must not be re-assigned", pos)
			}
			return
		}
		if l, ok := ts.Prot[f]; ok {
			x.obl(st, "lockset:"+f, boolLit(st.Held[l]), fmt.Sprintf("access to %s requires %s", f, l), pos)
			return
		}
		x.obl(st, "undeclared-field:"+f, "false", "field "+f+" has no declared discipline", pos)
	}
	h.AtomicRely = func(key, old, nu string) string {
		f, ok := fieldOf(key)
		if !ok {
			return ""
		}
		a, ok := ts.Atomic[f]
		if !ok || a[0] == "" {
			return ""
		}
		return kc.evalOldNew(a[0], old, nu)
	}
	h.AtomicWrite = func(x *Exec, st *State, key, old, nu string, pos token.Pos) {
		if foreignGuar(x, st, key, old, nu, pos) {
			return
		}
		f, ok := fieldOf(key)
		if !ok {
			return
		}
		a, ok := ts.Atomic[f]
		if !ok {
			return
		}
		if a[1] != "" {
			x.obl(st, "guar:"+f, kc.evalOldNew(a[1], old, nu), "atomic write respects the declared guarantee: "+a[1], pos)
		}
		// stability of every lock invariant mentioning the field under this write, for arbitrary protected state
		for l, invs := range ts.LockInv {
			if st.Held[l] {
				continue // checked at unlock
			}
			for i, inv := range invs {
				if !regexp.MustCompile(`\b` + regexp.QuoteMeta(f) + `\b`).MatchString(inv) {
					continue
				}
				g, err := kc.lockInvAt(x, st, ts, recv, inv, key, old, nu, mkEnv)
				if err != nil {
					x.obl(st, fmt.Sprintf("lockinv-stable:%s#%d", l, i), "false", err.Error(), pos)
					continue
				}
				x.obl(st, fmt.Sprintf("lockinv-stable:%s#%d", l, i), g, "write to "+f+" without "+l+" preserves: "+inv, pos)
			}
		}
	}
	h.OnLock = func(x *Exec, st *State, lock string, pos token.Pos) {
		if _, ok := ts.LockInv[lock]; !ok {
			return
		}
		// havoc protected state
		for f, l := range ts.Prot {
			if l != lock {
				continue
			}
			if sort, isGhost := ts.Ghost[f]; isGhost {
				st.Ghost[f] = q(x.D.fresh(f+"@cs", sort))
				st.Named["atlock("+f+")"] = st.Ghost[f]
				st.Named["sort:atlock("+f+")"] = sort
				continue
			}
			prefix := cellKey(f)
			for key, old := range st.Heap {
				if key == prefix || strings.HasPrefix(key, prefix+".") {
					st.Heap[key] = x.freshLike(st, key+"@cs", old, old.GoT)
				}
			}
		}
		// yield atomics mentioned by the invariant, then assume it
		for f := range ts.Atomic {
			key := cellKey(f)
			if cur, ok := st.Heap[key]; ok {
				x.yield(st, key, cur.GoT)
			}
		}
		env := mkEnv(st, nil)
		for _, inv := range ts.LockInv[lock] {
			kc.touchFields(x, st, ts, recv, inv)
			g, err := env.evalBool(inv)
			if err != nil {
				x.unsupp(st, "lockinv %s: %v", lock, err)
				continue
			}
			st.assume(g)
		}
		// remember protected values at acquisition for lockguar clauses
		for f, l := range ts.Prot {
			if l != lock {
				continue
			}
			if _, isGhost := ts.Ghost[f]; isGhost {
				continue
			}
			if t := kc.cellOrFieldType(ts, f); t != nil {
				v := x.load(st, cellKey(f), t, token.NoPos)
				if v.K == KSlice {
					v.Snap = x.arrTerm(st, v)
				}
				st.NamedV["atlock("+f+")"] = v
			}
		}
	}
	h.OnUnlock = func(x *Exec, st *State, lock string, pos token.Pos) {
		if _, ok := ts.LockInv[lock]; !ok {
			return
		}
		for f := range ts.Atomic {
			key := cellKey(f)
			if cur, ok := st.Heap[key]; ok {
				x.yield(st, key, cur.GoT)
			}
		}
		env := mkEnv(st, nil)
		for i, inv := range ts.LockInv[lock] {
			kc.touchFields(x, st, ts, recv, inv)
			g, err := env.evalBool(inv)
			if err != nil {
				x.obl(st, fmt.Sprintf("lockinv:%s#%d", lock, i), "false", err.Error(), pos)
				continue
			}
			x.obl(st, fmt.Sprintf("lockinv:%s#%d", lock, i), g, "lock invariant re-established at unlock: "+inv, pos)
		}
		for f, l := range ts.Prot {
			if l != lock {
				continue
			}
			if _, isGhost := ts.Ghost[f]; isGhost {
				continue
			}
			if t := kc.cellOrFieldType(ts, f); t != nil {
				v := x.load(st, cellKey(f), t, token.NoPos)
				if v.K == KSlice {
					v.Snap = x.arrTerm(st, v)
				}
				st.NamedV["atunlock("+f+")"] = v
			}
		}
		for i, c := range ts.LockGuar[lock] {
			g, err := env.evalBool(c.Text)
			if err != nil {
				// atlock(...) undefined means the field was not touched in this critical section
				continue
			}
			x.obl(st, fmt.Sprintf("lockguar:%s#%d", lock, i), g, "critical section guarantee: "+c.Text, pos)
		}
	}
	h.OnEvent = func(x *Exec, st *State, ev *Event) {
		// element invariant of internally synchronised maps: everything stored is an Observer
		if strings.HasSuffix(ev.Name, ".Store") && ts.Sync[strings.TrimSuffix(ev.Name, ".Store")] && len(ev.Args) == 2 {
			ok := ev.Args[1].GoT != nil && hasMethod(ev.Args[1].GoT, "NextWithContext")
			x.obl(st, "mapinv:"+strings.TrimSuffix(ev.Name, ".Store"), boolLit(ok), "every value stored in the map is an Observer (its readers assert that type)", ev.Pos)
		}
		for _, oe := range ts.OnEvent {
			if !eventNameMatch(oe.Pattern, ev.Name) {
				continue
			}
			env := mkEnv(st, nil)
			for i, r := range oe.Requires {
				g, err := env.evalBool(r)
				if err != nil {
					x.obl(st, fmt.Sprintf("event:%s/requires#%d", oe.Pattern, i), "false", err.Error(), ev.Pos)
					continue
				}
				x.obl(st, fmt.Sprintf("event:%s/requires#%d", oe.Pattern, i), g, "at every "+oe.Pattern+": "+r, ev.Pos)
			}
			for _, s := range oe.Sets {
				v, err := env.evalBool(s[1])
				if err == nil {
					st.Ghost[s[0]] = v
				}
			}
		}
	}
	return h
}

// cellOrFieldType: the Go type of a declared field (struct types) or captured cell (closure environments).
func (kc *kernelCtx) cellOrFieldType(ts *TypeSpec, f string) types.Type {
	if t := kc.fieldType(ts.Name, f); t != nil {
		return t
	}
	if ts.CellTypes != nil {
		return ts.CellTypes[f]
	}
	return nil
}

// touchFields makes sure the receiver fields named by an invariant have heap entries.
func (kc *kernelCtx) touchFields(x *Exec, st *State, ts *TypeSpec, recv, expr string) {
	for _, id := range regexp.MustCompile(`[A-Za-z_][A-Za-z0-9_]*`).FindAllString(expr, -1) {
		_, isAtomic := ts.Atomic[id]
		_, isProt := ts.Prot[id]
		_, isGhost := ts.Ghost[id]
		if (isAtomic || isProt || ts.Const[id]) && !isGhost {
			key := recv + "." + id
			if recv == "" {
				key = id
			}
			if _, ok := st.Heap[key]; !ok {
				if t := kc.cellOrFieldType(ts, id); t != nil {
					x.load(st, key, t, token.NoPos)
				}
			}
		}
	}
}

func (kc *kernelCtx) evalOldNew(expr, old, nu string) string {
	d := newDecls()
	x := &Exec{D: d}
	st := &State{Heap: map[string]SVal{}, Init: map[string]SVal{}, Ghost: map[string]string{}, Named: map[string]string{}, Held: map[string]bool{}}
	env := &Env{X: x, St: st, Vars: map[string]SVal{"old": mkInt(old), "new": mkInt(nu)}}
	g, err := env.evalBool(expr)
	if err != nil {
		return "false"
	}
	return g
}

// lockInvAt evaluates inv(old value of the atomic, arbitrary protected state) => inv(new value, same protected state).
func (kc *kernelCtx) lockInvAt(x *Exec, st *State, ts *TypeSpec, recv, inv, key, old, nu string, mkEnv func(*State, *Exit) *Env) (string, error) {
	s2 := st.clone()
	// arbitrary protected state
	for g, sort := range ts.Ghost {
		s2.Ghost[g] = q(x.D.fresh(g+"@any", sort))
	}
	for f := range ts.Prot {
		if _, isGhost := ts.Ghost[f]; isGhost {
			continue
		}
		k := recv + "." + f
		if recv == "" {
			k = f
		}
		if t := kc.cellOrFieldType(ts, f); t != nil {
			s2.Heap[k] = x.symbolic(s2, x.D.fresh(k+"@any", "U"), t)
		}
	}
	cur := s2.Heap[key]
	mk := func(term string) SVal { c := cur; c.T = term; return c }
	s2.Heap[key] = mk(old)
	a, err := mkEnv(s2, nil).evalBool(inv)
	if err != nil {
		return "", err
	}
	s2.Heap[key] = mk(nu)
	bb, err := mkEnv(s2, nil).evalBool(inv)
	if err != nil {
		return "", err
	}
	// assumptions introduced for the arbitrary state (slice lengths >= 0) stay in s2.PC only; add them as antecedent
	extra := s2.PC[len(st.PC):]
	return imp(and(append(extra, a)...), bb), nil
}

// typeSpecUnbound lists the names a type contract declares (atomic, const, free, sync, protected fields, locks) that are
// neither ghosts nor fields of the receiver's struct nor cells of the closure environment.
func (kc *kernelCtx) typeSpecUnbound(ts *TypeSpec, outer *ssa.Function, fns map[string]*ssa.Function) []string {
	have := map[string]bool{}
	if ts.Env != "" {
		if ts.CellTypes == nil {
			if top := fns[ts.Env]; top != nil {
				ts.CellTypes = cellTypes(top)
			}
		}
		for n := range ts.CellTypes {
			have[n] = true
		}
	} else if outer.Signature.Recv() != nil {
		if st, ok := isStruct(derefType(outer.Signature.Recv().Type())); ok {
			for i := 0; i < st.NumFields(); i++ {
				have[st.Field(i).Name()] = true
			}
		}
	} else {
		return nil
	}
	if len(have) == 0 {
		return nil
	}
	want := map[string]bool{}
	for f := range ts.Atomic {
		want[f] = true
	}
	for _, m := range []map[string]bool{ts.Const, ts.Free, ts.Sync} {
		for f := range m {
			want[f] = true
		}
	}
	for f, l := range ts.Prot {
		want[f] = true
		want[l] = true
	}
	var missing []string
	for f := range want {
		if _, ghost := ts.Ghost[f]; ghost || have[f] {
			continue
		}
		missing = append(missing, f)
	}
	sort.Strings(missing)
	return missing
}

// privateHelper: fn is an unexported package-level function (or method) of package pkg, with a body, without a contract
// block, and no contract text mentions it (as call.<name>, in an inline list or as a block name).
func (kc *kernelCtx) privateHelper(fn *ssa.Function, pkg string) (bool, string) {
	if fn == nil || fn.Blocks == nil || fn.Parent() != nil || pkgPathOf(fn) != pkg || fn.Object() == nil || fn.Object().Exported() {
		return false, ""
	}
	if kc.mentioned == nil {
		kc.mentioned = map[string]bool{}
		idRe := regexp.MustCompile(`[A-Za-z_][A-Za-z0-9_]*`)
		for _, b := range kc.blocks {
			for _, id := range idRe.FindAllString(b.Name, -1) {
				kc.mentioned[id] = true
			}
			for _, c := range b.Clauses {
				for _, id := range idRe.FindAllString(c.Text, -1) {
					kc.mentioned[id] = true
				}
			}
		}
	}
	if kc.mentioned[fn.Name()] {
		return false, ""
	}
	// no loops (they would need a contract of their own) and not recursive
	for _, blk := range fn.Blocks {
		for _, succ := range blk.Succs {
			if succ.Dominates(blk) {
				return false, "the private helper " + fn.Name() + " has a loop and no contract"
			}
		}
		for _, ins := range blk.Instrs {
			if c, ok := ins.(*ssa.Call); ok {
				if cal := c.Common().StaticCallee(); cal != nil && (cal == fn || (cal.Origin() != nil && cal.Origin() == fn)) {
					return false, "the private helper " + fn.Name() + " is recursive and has no contract"
				}
			}
		}
	}
	return true, ""
}


func outermost(fn *ssa.Function) *ssa.Function {
	for fn.Parent() != nil {
		fn = fn.Parent()
	}
	return fn
}


// callFingerprint: the names of what a function calls (methods invoked, functions and closures called), sorted and
// without duplicates. Recorded next to `binds` for closures (tools/mkbinds.py): when a name of `binds` is no longer
// captured, the contract is only tried on the closure of that ordinal if it still calls the same things - an inserted
// function literal that shifted the ordinals calls something else.
func callFingerprint(fn *ssa.Function) []string {
	seen := map[string]bool{}
	for _, b := range fn.Blocks {
		for _, ins := range b.Instrs {
			ci, ok := ins.(ssa.CallInstruction)
			if !ok {
				continue
			}
			c := ci.Common()
			n := ""
			switch {
			case c.IsInvoke():
				n = c.Method.Name()
			case c.StaticCallee() != nil:
				n = c.StaticCallee().Name()
			default:
				if _, isB := c.Value.(*ssa.Builtin); isB {
					continue
				}
				n = "fn:" + cellName(stripLoad(c.Value))
			}
			if i := strings.Index(n, "["); i > 0 {
				n = n[:i]
			}
			seen[n] = true
		}
	}
	var out []string
	for n := range seen {
		out = append(out, n)
	}
	sort.Strings(out)
	return out
}

func patSeenFalse(m map[string]bool) map[string]bool {
	out := map[string]bool{}
	for k, v := range m {
		if !v {
			out[k] = true
		}
	}
	return out
}
