package main

import (
	"fmt"
	"go/types"
	"os"
	"path/filepath"
	"regexp"
	"sort"
	"strings"

	"golang.org/x/tools/go/packages"
	"golang.org/x/tools/go/ssa"
	"golang.org/x/tools/go/ssa/ssautil"
)

// World is the loaded program: the real packages of /repo, compiled by the
// normal Go front end with the build tag `verif`, and their SSA form.
type World struct {
	RepoDir string
	Pkgs    []*packages.Package
	Prog    *ssa.Program
	SSA     map[string]*ssa.Package // by import path
	ByPath  map[string]*packages.Package
}

const roPath = "github.com/samber/ro"

// scratchGoWork writes a copy of /repo/go.work with absolute `use` paths into a
// scratch directory, so that go commands do not append to /repo/go.work.sum.
func scratchGoWork(repo string) (string, func(), error) {
	data, err := os.ReadFile(filepath.Join(repo, "go.work"))
	if err != nil {
		return "", func() {}, err
	}
	dir, err := os.MkdirTemp("", "rovc-gowork-")
	if err != nil {
		return "", func() {}, err
	}
	re := regexp.MustCompile(`^(\s*(?:use\s+)?)(\.[^\s)]*)\s*$`)
	var out []string
	for _, line := range strings.Split(string(data), "\n") {
		t := strings.TrimSpace(line)
		if strings.HasPrefix(t, "//") {
			out = append(out, line)
			continue
		}
		if m := re.FindStringSubmatch(line); m != nil {
			abs := filepath.Join(repo, m[2])
			out = append(out, m[1]+abs)
			continue
		}
		out = append(out, line)
	}
	p := filepath.Join(dir, "go.work")
	if err := os.WriteFile(p, []byte(strings.Join(out, "\n")), 0o644); err != nil {
		return "", func() {}, err
	}
	if sum, err := os.ReadFile(filepath.Join(repo, "go.work.sum")); err == nil {
		_ = os.WriteFile(filepath.Join(dir, "go.work.sum"), sum, 0o644)
	}
	return p, func() { os.RemoveAll(dir) }, nil
}

func loadWorld(repo string, patterns []string) (*World, error) {
	gowork, cleanup, err := scratchGoWork(repo)
	if err != nil {
		return nil, err
	}
	defer cleanup()
	env := []string{}
	for _, e := range os.Environ() {
		if strings.HasPrefix(e, "GOFLAGS=") || strings.HasPrefix(e, "GOWORK=") {
			continue
		}
		env = append(env, e)
	}
	env = append(env, "GOFLAGS=", "GOWORK="+gowork, "GOPROXY=off", "GOSUMDB=off", "GOTOOLCHAIN=local")
	cfg := &packages.Config{
		Mode:       packages.LoadAllSyntax,
		Dir:        repo,
		Env:        env,
		BuildFlags: []string{"-tags=verif"},
	}
	pkgs, err := packages.Load(cfg, patterns...)
	if err != nil {
		return nil, err
	}
	var errs []string
	packages.Visit(pkgs, nil, func(p *packages.Package) {
		if strings.HasPrefix(p.PkgPath, roPath) {
			for _, e := range p.Errors {
				errs = append(errs, e.Error())
			}
		}
	})
	if len(errs) > 0 {
		return nil, fmt.Errorf("load errors: %s", strings.Join(errs, "; "))
	}
	prog, spkgs := ssautil.AllPackages(pkgs, ssa.BuilderMode(0))
	prog.Build()
	w := &World{RepoDir: repo, Pkgs: pkgs, Prog: prog, SSA: map[string]*ssa.Package{}, ByPath: map[string]*packages.Package{}}
	for i, p := range pkgs {
		if spkgs[i] != nil {
			w.SSA[p.PkgPath] = spkgs[i]
		}
		w.ByPath[p.PkgPath] = p
	}
	// dependencies too
	for _, sp := range prog.AllPackages() {
		if _, ok := w.SSA[sp.Pkg.Path()]; !ok {
			w.SSA[sp.Pkg.Path()] = sp
		}
	}
	return w, nil
}

// FuncKey is the stable name contracts bind to: `Take`, `(*subscriberImpl).NextWithContext`,
// closures as `Take$1$1$1`, prefixed by the package's short path for non-root packages.
func funcKey(fn *ssa.Function) string {
	name := fn.Name()
	if fn.Signature.Recv() != nil && fn.Parent() == nil {
		rt := fn.Signature.Recv().Type()
		ptr := ""
		if p, ok := rt.(*types.Pointer); ok {
			rt = p.Elem()
			ptr = "*"
		}
		tn := rt.String()
		if n, ok := rt.(*types.Named); ok {
			tn = n.Obj().Name()
		}
		name = "(" + ptr + tn + ")." + fn.Name()
	}
	if fn.Parent() != nil {
		// closure: parentKey$N (ssa names are already like Take$1$1)
		name = funcKey(fn.Parent())
		idx := 0
		for i, a := range fn.Parent().AnonFuncs {
			if a == fn {
				idx = i + 1
			}
		}
		return fmt.Sprintf("%s$%d", name, idx)
	}
	return name
}

// allFuncs returns every function (including methods of generic types and
// nested closures) declared in package path, keyed by funcKey.
func (w *World) allFuncs(path string) map[string]*ssa.Function {
	out := map[string]*ssa.Function{}
	sp := w.SSA[path]
	if sp == nil {
		return out
	}
	var add func(fn *ssa.Function)
	add = func(fn *ssa.Function) {
		if fn == nil {
			return
		}
		out[funcKey(fn)] = fn
		for _, a := range fn.AnonFuncs {
			add(a)
		}
	}
	for _, m := range sp.Members {
		switch m := m.(type) {
		case *ssa.Function:
			add(m)
		case *ssa.Type:
			if named, ok := m.Type().(*types.Named); ok {
				for i := 0; i < named.NumMethods(); i++ {
					add(w.Prog.FuncValue(named.Method(i)))
				}
			}
		}
	}
	return out
}

func sortedKeys[V any](m map[string]V) []string {
	ks := make([]string, 0, len(m))
	for k := range m {
		ks = append(ks, k)
	}
	sort.Strings(ks)
	return ks
}
