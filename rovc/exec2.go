package main

import (
	"fmt"
	"go/token"
	"go/types"
	"strings"

	"golang.org/x/tools/go/ssa"
)

// valueInstr evaluates a value-producing, non-call instruction. When the instruction forks
// the path (type assertion that may panic, append that may reallocate) it continues the
// block itself and reports forked=true.
func (x *Exec) valueInstr(st *State, b *ssa.BasicBlock, i int, ins ssa.Value, k Cont) (SVal, bool) {
	switch ins := ins.(type) {
	case *ssa.Alloc:
		name := fmt.Sprintf("new#%d", len(st.Zero)+1)
		if ins.Comment != "" {
			name += ":" + ins.Comment
		}
		if x.NamedCells && ins.Comment != "" && ins.Heap {
			name = ins.Comment
			for n := 2; st.Zero[name]; n++ {
				name = fmt.Sprintf("%s#%d", ins.Comment, n)
			}
		}
		// a named local cell of a closure-verification unit keeps its plain name when asked to
		st.Zero[name] = true
		return SVal{K: KLoc, Loc: name, GoT: ins.Type(), Src: ins.Comment}, false
	case *ssa.FieldAddr:
		base := x.val(st, ins.X)
		pt := ins.X.Type().Underlying().(*types.Pointer)
		stt := pt.Elem().Underlying().(*types.Struct)
		fname := stt.Field(ins.Field).Name()
		if base.K == KU {
			// a pointer to an object we do not track (a time.Ticker, a third-party struct): its fields are named
			// after the value the pointer was read from
			if nt, ok := pt.Elem().(*types.Named); ok {
				// which struct the field belongs to: a write to an atomic field of another object still owes that type's guarantee
				st.Named["typeof:"+provName(base)+"->"+fname] = nt.Obj().Name()
			}
			return SVal{K: KLoc, Loc: provName(base) + "->" + fname, GoT: ins.Type(), Src: provName(base) + "." + fname}, false
		}
		if base.K != KLoc {
			x.unsupp(st, "field address of untracked pointer (%s.%s) in %s at %s", ins.X.Name(), fname, funcKey(ins.Parent()), x.pos(ins.Pos()))
			return mkU("nil"), false
		}
		if strings.HasPrefix(base.Loc, "elem:") {
			// field of a struct stored in a heap array: elem:<arr>::<idx>##<field path>
			sep := "##"
			if strings.Contains(base.Loc, "##") {
				sep = "."
			}
			return SVal{K: KLoc, Loc: base.Loc + sep + fname, GoT: ins.Type(), Elems: []SVal{{GoT: pt.Elem()}}}, false
		}
		return SVal{K: KLoc, Loc: base.Loc + "." + fname, GoT: ins.Type()}, false
	case *ssa.Field:
		base := x.val(st, ins.X)
		if base.K == KStruct && ins.Field < len(base.Elems) {
			return base.Elems[ins.Field], false
		}
		// field of an opaque (U) struct value: projection function
		stt, _ := ins.X.Type().Underlying().(*types.Struct)
		fname := fmt.Sprint(ins.Field)
		if stt != nil {
			fname = stt.Field(ins.Field).Name()
		}
		return x.project(st, base, ins.X.Type(), fname, ins.Type()), false
	case *ssa.IndexAddr:
		base := x.val(st, ins.X)
		idx := x.val(st, ins.Index)
		switch base.K {
		case KSlice:
			x.boundsObl(st, idx.T, base.Len, ins.Pos())
			x.arrTerm(st, base)
			return SVal{K: KLoc, Loc: "elem:" + base.Loc + "::" + plus(base.Off, idx.T), GoT: ins.Type()}, false
		case KLoc:
			// pointer to array: element cells base[i] for literal i, else unsupported
			if isLit(idx.T) {
				return SVal{K: KLoc, Loc: base.Loc + "[" + idx.T + "]", GoT: ins.Type()}, false
			}
			// symbolic index into a local array: treat the array as a heap array
			arrKey := "arrof:" + base.Loc
			if _, ok := st.Heap[arrKey]; ok {
				return SVal{K: KLoc, Loc: "elem:" + arrKey + "::" + idx.T, GoT: ins.Type()}, false
			}
			x.unsupp(st, "symbolic index into array pointer in %s", funcKey(ins.Parent()))
			return mkU("nil"), false
		}
		x.unsupp(st, "index address on %v in %s", base.K, funcKey(ins.Parent()))
		return mkU("nil"), false
	case *ssa.Index:
		base := x.val(st, ins.X)
		idx := x.val(st, ins.Index)
		if base.K == KU {
			// string or type-parameter indexable
			return x.unbox(st, x.D.app("index!", []string{base.T, idx.T}, []string{"U", "Int"}, sortOf(ins.Type())), ins.Type()), false
		}
		x.unsupp(st, "index on %v", base.K)
		return mkU("nil"), false
	case *ssa.UnOp:
		return x.unop(st, ins), false
	case *ssa.BinOp:
		return x.binop(st, ins), false
	case *ssa.Phi:
		return x.val(st, ins), false
	case *ssa.Extract:
		t := x.val(st, ins.Tuple)
		if t.K == KTuple && ins.Index < len(t.Elems) {
			return t.Elems[ins.Index], false
		}
		x.unsupp(st, "extract from non-tuple in %s", funcKey(ins.Parent()))
		return mkU("nil"), false
	case *ssa.MakeClosure:
		fn := ins.Fn.(*ssa.Function)
		var binds []SVal
		for _, bnd := range ins.Bindings {
			binds = append(binds, x.val(st, bnd))
		}
		if strings.HasSuffix(fn.Name(), "$bound") && len(binds) == 1 {
			r := binds[0]
			return SVal{K: KBound, Recv: &r, Method: strings.TrimSuffix(fn.Name(), "$bound"), GoT: ins.Type(), Fn: fn}, false
		}
		return SVal{K: KClosure, Fn: fn, Binds: binds, GoT: ins.Type()}, false
	case *ssa.MakeInterface:
		v := x.val(st, ins.X)
		return x.toU(st, v, ins.X.Type()), false
	case *ssa.ChangeInterface:
		v := x.val(st, ins.X)
		return v, false
	case *ssa.ChangeType:
		v := x.val(st, ins.X)
		v.GoT = ins.Type()
		return v, false
	case *ssa.Convert:
		v := x.val(st, ins.X)
		from, to := sortOf(ins.X.Type()), sortOf(ins.Type())
		if from == to && from != "U" {
			v.GoT = ins.Type()
			return v, false
		}
		if v.K == KSlice {
			// []byte -> string and the like: box
			return SVal{K: KU, T: x.D.app("conv!"+typeShort(ins.Type()), []string{x.termOf(st, v)}, []string{"U"}, "U"), GoT: ins.Type()}, false
		}
		t := x.D.app("conv!"+typeShort(ins.X.Type())+"!"+typeShort(ins.Type()), []string{x.termOf(st, v)}, []string{x.sortOfVal(v)}, to)
		return x.unbox(st, t, ins.Type()), false
	case *ssa.TypeAssert:
		v := x.val(st, ins.X)
		ut := x.termOf(st, v)
		okT := x.D.app("is_"+typeShort(ins.AssertedType), []string{ut}, []string{"U"}, "Bool")
		res := v
		res.GoT = ins.AssertedType
		if pt, ok := ins.AssertedType.Underlying().(*types.Pointer); ok {
			if _, isSt := pt.Elem().Underlying().(*types.Struct); isSt && v.K == KU {
				// the concrete object behind an interface value: a tracked object named after the interface value
				res = SVal{K: KLoc, Loc: provName(v) + "^", GoT: ins.AssertedType, Src: provName(v) + "^"}
				st.NamedV["asserted("+provName(v)+")"] = res
				if nt, ok := pt.Elem().(*types.Named); ok {
					st.Named["typeof:"+provName(v)+"^"] = nt.Obj().Name()
				}
			}
		}
		if sortOf(ins.AssertedType) != "U" || isStructT(ins.AssertedType) {
			res = x.unbox(st, x.D.app("as_"+typeShort(ins.AssertedType), []string{ut}, []string{"U"}, sortOf(ins.AssertedType)), ins.AssertedType)
		}
		if ins.CommaOk {
			return SVal{K: KTuple, Elems: []SVal{res, mkBool(okT)}}, false
		}
		if types.IsInterface(ins.AssertedType) && types.AssignableTo(ins.X.Type(), ins.AssertedType) {
			// assertion to an interface the static type already satisfies: fails only for nil
			okT = not(eq(ut, "nil"))
		}
		if provName(v) == "destination" && types.IsInterface(ins.AssertedType) {
			// the destination handed to a subscribe function is the gate built by SubscribeWithContext: never nil
			st.assume(okT)
			return res, false
		}
		if v.Src == "elem" {
			// element of a sync.Map seen through Range: its type is the map's element invariant, checked at Store sites
			st.assume(okT)
			return res, false
		}
		x.obl(st, "nopanic/typeassert", okT, "type assertion without ok", ins.Pos())
		st.assume(okT)
		return res, false
	case *ssa.MakeSlice:
		ln := x.val(st, ins.Len)
		cp := x.val(st, ins.Cap)
		arr := x.D.fresh("arr@make", "(Array Int "+x.elemSortT(ins.Type())+")")
		st.Heap[arr] = SVal{K: KU, T: x.constArr(x.elemSortT(ins.Type()))}
		st.Written[arr] = true
		return SVal{K: KSlice, Loc: arr, Off: "0", Len: ln.T, Cap: cp.T, GoT: ins.Type()}, false
	case *ssa.Slice:
		return x.sliceInstr(st, ins), false
	case *ssa.MakeMap:
		name := x.D.fresh("map@make", "U")
		mt, _ := isMap(ins.Type())
		vs := "U"
		if mt != nil {
			vs = sortOf(mt.Elem())
		}
		st.Heap["map@"+name+"#has"] = SVal{K: KU, T: "((as const (Array U Bool)) false)"}
		st.Heap["map@"+name+"#val"] = SVal{K: KU, T: q(x.D.constOf("map@"+name+"#val0", "(Array U "+vs+")"))}
		return SVal{K: KMap, Loc: "map@" + name, GoT: ins.Type()}, false
	case *ssa.Lookup:
		m := x.val(st, ins.X)
		key := x.val(st, ins.Index)
		if m.K == KMap {
			mt, _ := isMap(m.GoT)
			vs := "U"
			var et types.Type
			if mt != nil {
				vs = sortOf(mt.Elem())
				et = mt.Elem()
			}
			has, vals := x.mapArrays(st, m, vs)
			kt := x.keyTerm(st, key)
			hv := "(select " + has + " " + kt + ")"
			vv := x.unbox(st, "(select "+vals+" "+kt+")", et)
			if ins.CommaOk {
				return SVal{K: KTuple, Elems: []SVal{vv, mkBool(hv)}}, false
			}
			return vv, false
		}
		// string index
		return x.unbox(st, x.D.app("index!", []string{x.termOf(st, m), key.T}, []string{"U", "Int"}, sortOf(ins.Type())), ins.Type()), false
	case *ssa.MakeChan:
		sz := x.val(st, ins.Size)
		name := x.D.fresh("chan", "U")
		ev := x.event(st, Event{Name: "chmake", Args: []SVal{sz}, Pos: ins.Pos()})
		_ = ev
		return SVal{K: KU, T: q(name), GoT: ins.Type(), Src: "chan:" + ins.Name()}, false
	case *ssa.Select:
		// nondeterministic choice: fresh index and values
		idx := q(x.D.fresh("select", "Int"))
		st.assume("(>= " + idx + " " + boolIntLit(ins.Blocking) + ")")
		st.assume("(< " + idx + " " + fmt.Sprint(len(ins.States)) + ")")
		var names []string
		for _, s := range ins.States {
			names = append(names, provName(x.val(st, s.Chan)))
		}
		// the event carries the channels of the select's cases, in source order: chselect(in, done); a select with a
		// default case (a poll) is a different event, chpoll(...)
		var chans []SVal
		for _, s := range ins.States {
			chans = append(chans, x.val(st, s.Chan))
		}
		_ = names
		evn := "chselect"
		if !ins.Blocking {
			evn = "chpoll"
		}
		x.event(st, Event{Name: evn, Pos: ins.Pos(), Args: chans, Res: []SVal{mkInt(idx)}})
		elems := []SVal{mkInt(idx), mkBool(q(x.D.fresh("recvok", "Bool")))}
		tup := ins.Type().(*types.Tuple)
		// `received` names the value of the first receiving case whose value the code uses (case item, ok := <-in),
		// wherever that case stands among the others (a bare `case <-done:` also has a slot in the tuple)
		firstUsed := 2
		if refs := ins.Referrers(); refs != nil {
			best := -1
			for _, r := range *refs {
				if ex, ok := r.(*ssa.Extract); ok && ex.Index >= 2 && ex.Referrers() != nil && len(*ex.Referrers()) > 0 {
					if best < 0 || ex.Index < best {
						best = ex.Index
					}
				}
			}
			if best >= 2 {
				firstUsed = best
			}
		}
		for j := 2; j < tup.Len(); j++ {
			rv := x.symbolic(st, x.D.fresh("recv", "U")+"v", tup.At(j).Type())
			elems = append(elems, rv)
			st.NamedV[fmt.Sprintf("received%d", j-2)] = rv
			if j == firstUsed {
				st.NamedV["received"] = rv
			}
		}
		return SVal{K: KTuple, Elems: elems}, false
	case *ssa.Range, *ssa.Next:
		x.unsupp(st, "range over map/string in %s", funcKey(b.Parent()))
		return mkU("nil"), false
	case *ssa.MultiConvert:
		// conversion of a type-parameter-typed value (float64(value) with T numeric): an uninterpreted function of the operand
		v := x.val(st, ins.X)
		to := sortOf(ins.Type())
		t := x.D.app("conv!"+typeShort(ins.X.Type())+"!"+typeShort(ins.Type()), []string{x.termOf(st, v)}, []string{x.sortOfVal(v)}, to)
		return x.unbox(st, t, ins.Type()), false
	case *ssa.SliceToArrayPointer:
		x.unsupp(st, "unsupported conversion %T", ins)
		return mkU("nil"), false
	}
	x.unsupp(st, "value instruction %T in %s", ins, funcKey(b.Parent()))
	return mkU("nil"), false
}

func boolIntLit(blocking bool) string {
	if blocking {
		return "0"
	}
	return "(- 1)"
}

func isStructT(t types.Type) bool {
	_, ok := isStruct(t)
	return ok
}

func isLit(t string) bool {
	if t == "" {
		return false
	}
	for _, c := range t {
		if c < '0' || c > '9' {
			return false
		}
	}
	return true
}

func plus(a, b string) string {
	if a == "0" {
		return b
	}
	if b == "0" {
		return a
	}
	return "(+ " + a + " " + b + ")"
}

func (x *Exec) elemSortT(t types.Type) string {
	if sl, ok := isSlice(t); ok {
		return sortOf(sl.Elem())
	}
	return "U"
}

func (x *Exec) boundsObl(st *State, idx, ln string, pos token.Pos) {
	x.obl(st, "nopanic/index", and("(>= "+idx+" 0)", "(< "+idx+" "+ln+")"), "index in range", pos)
	st.assume(and("(>= "+idx+" 0)", "(< "+idx+" "+ln+")"))
}

// toU boxes a value into the universe sort (interface conversion).
func (x *Exec) toU(st *State, v SVal, t types.Type) SVal {
	switch v.K {
	case KU:
		return v
	case KInt:
		return SVal{K: KU, T: x.D.app("box!int", []string{v.T}, []string{"Int"}, "U"), GoT: t}
	case KBool:
		return SVal{K: KU, T: x.D.app("box!bool", []string{v.T}, []string{"Bool"}, "U"), GoT: t}
	case KStruct:
		v.GoT = t
		u := x.termOf(st, v)
		// ground projection facts
		if s, ok := isStruct(t); ok {
			for i, e := range v.Elems {
				if i < s.NumFields() {
					p := x.D.app("proj!"+typeShort(t)+"!"+s.Field(i).Name(), []string{u}, []string{"U"}, x.sortOfVal(e))
					st.assume(eq(p, x.termOf(st, e)))
				}
			}
		}
		return SVal{K: KU, T: u, GoT: t}
	case KLoc, KClosure, KFn, KBound, KSlice, KMap:
		// keep the structured value: interface holding a pointer / func
		return v
	}
	return SVal{K: KU, T: x.termOf(st, v), GoT: t}
}

// unbox turns a term of the scalar sort of t into a value; struct types get projections.
func (x *Exec) unbox(st *State, term string, t types.Type) SVal {
	if s, ok := isStruct(t); ok && !isOpaqueStruct(t) {
		v := SVal{K: KStruct, GoT: t}
		for i := 0; i < s.NumFields(); i++ {
			ft := s.Field(i).Type()
			p := x.D.app("proj!"+typeShort(t)+"!"+s.Field(i).Name(), []string{term}, []string{"U"}, sortOf(ft))
			v.Elems = append(v.Elems, x.unbox(st, p, ft))
		}
		return v
	}
	if sl, ok := isSlice(t); ok {
		// slice hidden in a U term: opaque header with uninterpreted array/len
		es := sortOf(sl.Elem())
		arr := x.D.app("sl!arr!"+es, []string{term}, []string{"U"}, "(Array Int "+es+")")
		ln := x.D.app("sl!len", []string{term}, []string{"U"}, "Int")
		key := "arr@" + sanitize(term)
		if len(key) > 80 {
			key = x.D.fresh("arr@unboxed", "(Array Int "+es+")")
		}
		st.Heap[key] = SVal{K: KU, T: arr}
		st.Named["es:"+key] = es
		st.assume("(>= " + ln + " 0)")
		// ground round trip: boxing the unboxed header gives the term back
		st.assume(eq(x.D.app("boxslice!"+es, []string{arr, "0", ln}, []string{"(Array Int " + es + ")", "Int", "Int"}, "U"), term))
		return SVal{K: KSlice, Loc: key, Off: "0", Len: ln, Cap: ln, GoT: t}
	}
	switch sortOf(t) {
	case "Int":
		return SVal{K: KInt, T: term, GoT: t}
	case "Bool":
		return SVal{K: KBool, T: term, GoT: t}
	}
	return SVal{K: KU, T: term, GoT: t}
}

func (x *Exec) project(st *State, base SVal, bt types.Type, fname string, ft types.Type) SVal {
	u := x.termOf(st, base)
	p := x.D.app("proj!"+typeShort(bt)+"!"+fname, []string{u}, []string{"U"}, sortOf(ft))
	return x.unbox(st, p, ft)
}

func (x *Exec) unop(st *State, ins *ssa.UnOp) SVal {
	v := x.val(st, ins.X)
	switch ins.Op {
	case token.MUL: // load
		if v.K == KU && v.T != "nil" {
			// a pointer the function does not own (an element of a []*T queue): its target is an uninterpreted function of
			// the pointer. Sound while nothing stores through untracked pointers (such stores are reported as unsupported);
			// a nil dereference is not checked here.
			if _, isPtr := ins.X.Type().Underlying().(*types.Pointer); isPtr {
				t := x.D.app("deref!"+typeShort(ins.Type()), []string{v.T}, []string{"U"}, sortOf(ins.Type()))
				return x.unbox(st, t, ins.Type())
			}
		}
		if v.K != KLoc {
			x.unsupp(st, "load through untracked pointer %s in %s at %s", ins.X.Name(), funcKey(ins.Parent()), x.pos(ins.Pos()))
			return mkU("nil")
		}
		if v.NilC != "" {
			x.obl(st, "nopanic/nil", "(not "+v.NilC+")", "no nil pointer is dereferenced", ins.Pos())
			st.assume("(not " + v.NilC + ")")
		}
		if strings.HasPrefix(v.Loc, "elem:") {
			loc, fields := v.Loc, ""
			if i := strings.Index(loc, "##"); i >= 0 {
				loc, fields = v.Loc[:i], v.Loc[i+2:]
			}
			arr, idx := splitElem(loc)
			cur, ok := st.Heap[arr]
			if !ok {
				x.unsupp(st, "load from unknown array %s", arr)
				return mkU("nil")
			}
			if fields == "" {
				ev := x.unbox(st, "(select "+cur.T+" "+idx+")", ins.Type())
				if ev.Src == "" && strings.HasPrefix(arr, "arr@") {
					ev.Src = strings.TrimPrefix(arr, "arr@") + "[]" // an element of the slice held by that cell
				}
				return ev
			}
			// element struct type is remembered on the address value
			if len(v.Elems) == 0 || v.Elems[0].GoT == nil {
				x.unsupp(st, "field of array element with unknown type")
				return mkU("nil")
			}
			ev := x.unbox(st, "(select "+cur.T+" "+idx+")", v.Elems[0].GoT)
			for _, f := range strings.Split(fields, ".") {
				stt, ok := isStruct(ev.GoT)
				if !ok || ev.K != KStruct {
					x.unsupp(st, "field %s of non-struct array element", f)
					return mkU("nil")
				}
				found := false
				for j := 0; j < stt.NumFields(); j++ {
					if stt.Field(j).Name() == f {
						ev = ev.Elems[j]
						found = true
						break
					}
				}
				if !found {
					x.unsupp(st, "no field %s", f)
					return mkU("nil")
				}
			}
			return ev
		}
		if strings.HasPrefix(v.Loc, "global:") {
			r := x.load(st, v.Loc, ins.Type(), ins.Pos())
			r.Src = v.Loc
			return r
		}
		if x.H.FieldAccess != nil {
			x.H.FieldAccess(x, st, v.Loc, false, nil, ins.Pos())
		}
		if _, isFn := ins.Type().Underlying().(*types.Signature); isFn {
			if _, known := st.Heap[v.Loc]; !known {
				if fv, ok := ins.X.(*ssa.FreeVar); ok {
					if cl, ok := x.localClosure(fv); ok {
						return cl
					}
				}
			}
		}
		r := x.load(st, v.Loc, ins.Type(), ins.Pos())
		if r.GoT == nil {
			r.GoT = ins.Type()
		}
		return r
	case token.NOT:
		return SVal{K: KBool, T: not(v.T), GoT: ins.Type()}
	case token.SUB:
		if v.K == KInt {
			return SVal{K: KInt, T: "(- " + v.T + ")", GoT: ins.Type()}
		}
		return SVal{K: KU, T: x.D.app("neg!", []string{x.termOf(st, v)}, []string{"U"}, "U"), GoT: ins.Type()}
	case token.ARROW:
		okv := q(x.D.fresh("recvok", "Bool"))
		val := x.symbolic(st, x.D.fresh("recv", "U")+"v", chanElem(ins.X.Type()))
		x.event(st, Event{Name: "chrecv:" + provName(v), Args: []SVal{v}, Res: []SVal{val}, Pos: ins.Pos()})
		st.NamedV["received"] = val
		if ins.CommaOk {
			return SVal{K: KTuple, Elems: []SVal{val, mkBool(okv)}}
		}
		return val
	case token.XOR:
		return SVal{K: KInt, T: x.D.app("bitnot!", []string{v.T}, []string{"Int"}, "Int"), GoT: ins.Type()}
	}
	x.unsupp(st, "unary op %s", ins.Op)
	return mkU("nil")
}

// localClosure: the free variable names a variable of an enclosing function that holds exactly one function
// literal (a local helper such as `reset` or `flush`); the helper is then executed in place, its own free
// variables naming the same cells.
func (x *Exec) localClosure(fv *ssa.FreeVar) (SVal, bool) {
	for p := fv.Parent().Parent(); p != nil; p = p.Parent() {
		for _, b := range p.Blocks {
			for _, ins := range b.Instrs {
				al, ok := ins.(*ssa.Alloc)
				if !ok || al.Comment != fv.Name() {
					continue
				}
				var mc *ssa.MakeClosure
				n := 0
				for _, r := range *al.Referrers() {
					if st, ok := r.(*ssa.Store); ok && st.Addr == ssa.Value(al) {
						n++
						if m, ok := st.Val.(*ssa.MakeClosure); ok {
							mc = m
						}
					}
				}
				if n != 1 || mc == nil {
					return SVal{}, false
				}
				fn, ok := mc.Fn.(*ssa.Function)
				if !ok {
					return SVal{}, false
				}
				var binds []SVal
				for _, bv := range mc.Bindings {
					name := ""
					switch t := bv.(type) {
					case *ssa.Alloc:
						name = t.Comment
					case *ssa.FreeVar:
						name = t.Name()
					}
					if name == "" {
						return SVal{}, false
					}
					binds = append(binds, SVal{K: KLoc, Loc: name, GoT: bv.Type(), Src: name})
				}
				return SVal{K: KClosure, Fn: fn, Binds: binds, GoT: mc.Type()}, true
			}
		}
	}
	return SVal{}, false
}

func chanElem(t types.Type) types.Type {
	if c, ok := t.Underlying().(*types.Chan); ok {
		return c.Elem()
	}
	return nil
}

func (x *Exec) binop(st *State, ins *ssa.BinOp) SVal {
	a := x.val(st, ins.X)
	b := x.val(st, ins.Y)
	rt := ins.Type()
	switch ins.Op {
	case token.EQL:
		return SVal{K: KBool, T: x.valEq(st, a, b), GoT: rt}
	case token.NEQ:
		return SVal{K: KBool, T: not(x.valEq(st, a, b)), GoT: rt}
	}
	if a.K == KInt && b.K == KInt {
		op := ""
		switch ins.Op {
		case token.ADD:
			op = "+"
		case token.SUB:
			op = "-"
		case token.MUL:
			op = "*"
		case token.LSS:
			return SVal{K: KBool, T: "(< " + a.T + " " + b.T + ")", GoT: rt}
		case token.LEQ:
			return SVal{K: KBool, T: "(<= " + a.T + " " + b.T + ")", GoT: rt}
		case token.GTR:
			return SVal{K: KBool, T: "(> " + a.T + " " + b.T + ")", GoT: rt}
		case token.GEQ:
			return SVal{K: KBool, T: "(>= " + a.T + " " + b.T + ")", GoT: rt}
		case token.QUO, token.REM:
			x.obl(st, "nopanic/divzero", not(eq(b.T, "0")), "divisor non-zero", ins.Pos())
			st.assume(not(eq(b.T, "0")))
			name := "go_quo"
			smt := "div"
			if ins.Op == token.REM {
				name, smt = "go_rem", "mod"
			}
			t := x.D.app(name, []string{a.T, b.T}, []string{"Int", "Int"}, "Int")
			// Go truncates toward zero; for non-negative dividend and positive divisor it coincides with SMT div/mod
			st.assume(imp(and("(>= "+a.T+" 0)", "(> "+b.T+" 0)"), eq(t, "("+smt+" "+a.T+" "+b.T+")")))
			return SVal{K: KInt, T: t, GoT: rt}
		default:
			t := x.D.app("bitop!"+ins.Op.String(), []string{a.T, b.T}, []string{"Int", "Int"}, "Int")
			return SVal{K: KInt, T: t, GoT: rt}
		}
		return SVal{K: KInt, T: "(" + op + " " + a.T + " " + b.T + ")", GoT: rt}
	}
	// non-integer arithmetic / ordering: uninterpreted functions add_T, lt_T, ...
	ta, tb := x.termOf(st, a), x.termOf(st, b)
	rs := sortOf(rt)
	opName := map[token.Token]string{token.ADD: "add", token.SUB: "sub", token.MUL: "mul", token.QUO: "quo", token.REM: "rem", token.LSS: "lt", token.LEQ: "le", token.GTR: "gt", token.GEQ: "ge"}[ins.Op]
	if opName == "" {
		opName = "op" + fmt.Sprint(int(ins.Op))
	}
	t := x.D.app(opName+"_"+typeShort(ins.X.Type()), []string{ta, tb}, []string{x.sortOfVal(a), x.sortOfVal(b)}, rs)
	return x.unbox(st, t, rt)
}

func (x *Exec) sliceInstr(st *State, ins *ssa.Slice) SVal {
	base := x.val(st, ins.X)
	lo := "0"
	if ins.Low != nil {
		lo = x.val(st, ins.Low).T
	}
	switch base.K {
	case KLoc:
		// slicing a local array (varargs): build a heap array from its element cells
		pt, ok := ins.X.Type().Underlying().(*types.Pointer)
		if !ok {
			break
		}
		at, ok := pt.Elem().Underlying().(*types.Array)
		if !ok {
			break
		}
		es := sortOf(at.Elem())
		arr := x.constArr(es)
		for j := int64(0); j < at.Len(); j++ {
			e := x.load(st, fmt.Sprintf("%s[%d]", base.Loc, j), at.Elem(), ins.Pos())
			arr = "(store " + arr + " " + fmt.Sprint(j) + " " + x.termOf(st, e) + ")"
		}
		key := x.D.fresh("arr@lit", "(Array Int "+es+")")
		st.Heap[key] = SVal{K: KU, T: arr}
		hi := fmt.Sprint(at.Len())
		if ins.High != nil {
			hi = x.val(st, ins.High).T
		}
		return SVal{K: KSlice, Loc: key, Off: lo, Len: minus(hi, lo), Cap: minus(fmt.Sprint(at.Len()), lo), GoT: ins.Type()}
	case KSlice:
		hi := base.Len
		if ins.High != nil {
			hi = x.val(st, ins.High).T
		}
		cp := base.Cap
		if ins.Max != nil {
			cp = x.val(st, ins.Max).T
		}
		x.obl(st, "nopanic/slice", and("(<= 0 "+lo+")", "(<= "+lo+" "+hi+")", "(<= "+hi+" "+base.Cap+")"), "slice bounds", ins.Pos())
		return SVal{K: KSlice, Loc: base.Loc, Off: plus(base.Off, lo), Len: minus(hi, lo), Cap: minus(cp, lo), GoT: ins.Type()}
	case KU:
		// substring
		hi := x.D.app("len!str", []string{base.T}, []string{"U"}, "Int")
		if ins.High != nil {
			hi = x.val(st, ins.High).T
		}
		return SVal{K: KU, T: x.D.app("substr!", []string{base.T, lo, hi}, []string{"U", "Int", "Int"}, "U"), GoT: ins.Type()}
	}
	x.unsupp(st, "slice of %v in %s", base.K, funcKey(ins.Parent()))
	return mkU("nil")
}

func minus(a, b string) string {
	if b == "0" {
		return a
	}
	if isLit(a) && isLit(b) {
		var x, y int64
		fmt.Sscan(a, &x)
		fmt.Sscan(b, &y)
		return intLit(x - y)
	}
	return "(- " + a + " " + b + ")"
}
