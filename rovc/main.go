package main

import (
	"encoding/json"
	"strings"
	"fmt"
	"os"
)

func main() {
	if len(os.Args) < 2 {
		fmt.Fprintln(os.Stderr, "usage: rovc dump|gen ...")
		os.Exit(2)
	}
	switch os.Args[1] {
	case "dump":
		cmdDump(os.Args[2:])
	case "gen":
		cmdGen(os.Args[2:])
	case "liftgen":
		cmdLiftGen(os.Args[2:])
	case "sigs":
		cmdSigs(os.Args[2:])
	default:
		fmt.Fprintln(os.Stderr, "unknown command")
		os.Exit(2)
	}
}

func cmdDump(args []string) {
	pkg := roPath
	if len(args) > 0 && strings.HasPrefix(args[0], "-pkg=") {
		pkg = roPath + "/" + strings.TrimPrefix(args[0], "-pkg=")
		args = args[1:]
	}
	w, err := loadWorld("/repo", []string{pkg})
	if err != nil {
		panic(err)
	}
	fns := w.allFuncs(pkg)
	if len(args) == 0 {
		for _, k := range sortedKeys(fns) {
			fmt.Println(k)
		}
		return
	}
	for _, a := range args {
		fn := fns[a]
		if fn == nil {
			fmt.Println("no such function", a)
			continue
		}
		fn.WriteTo(os.Stdout)
	}
}


// cmdSigs prints, for every func block of the contract files, the parameter and captured-variable names of the function it
// binds to (JSON: file -> block name -> names). Used by tools/mkbinds.py to write the `binds` fingerprints.
func cmdSigs(args []string) {
	pkgs := []string{roPath}
	if len(args) > 0 {
		pkgs = strings.Split(args[0], ",")
	}
	w, err := loadWorld("/repo", pkgs)
	if err != nil {
		panic(err)
	}
	blocks, _, err := loadContracts(w)
	if err != nil {
		panic(err)
	}
	out := map[string]map[string][]string{}
	for _, b := range blocks {
		if b.Kind == "operator" {
			if fn := w.allFuncs(b.Pkg)[b.Name]; fn != nil {
				scope := map[string]bool{}
				for _, n := range availFor(fn) {
					if n != "" && n != "_" {
						scope[n] = true
					}
				}
				if out[b.File] == nil {
					out[b.File] = map[string][]string{}
				}
				out[b.File]["operator "+b.Name+"#scope"] = sortedStrs(scope)
			}
			continue
		}
		if b.Kind != "func" {
			continue
		}
		fn := w.allFuncs(b.Pkg)[b.Name]
		if fn == nil {
			continue
		}
		var names []string
		for f := fn; f != nil; f = f.Parent() {
			for _, p := range f.Params {
				names = append(names, p.Name())
			}
			for _, fv := range f.FreeVars {
				names = append(names, fv.Name())
			}
		}
		if out[b.File] == nil {
			out[b.File] = map[string][]string{}
		}
		out[b.File][b.Name] = names
		// every identifier that exists around the function when the contract is written: a later renaming shows as the
		// one name that is not in this list
		scope := map[string]bool{}
		for _, n := range availFor(fn) {
			if n != "" && n != "_" {
				scope[n] = true
			}
		}
		out[b.File][b.Name+"#scope"] = sortedStrs(scope)
		if fn.Parent() != nil {
			out[b.File][b.Name+"#calls"] = callFingerprint(fn)
			var ps []string
			for _, prm := range fn.Params {
				ps = append(ps, prm.Name())
			}
			if len(ps) == 0 {
				ps = []string{"-"}
			}
			out[b.File][b.Name+"#params"] = ps
		}
	}
	json.NewEncoder(os.Stdout).Encode(out)
}
