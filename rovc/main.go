package main

import (
	"strings"
	"fmt"
	"os"
)

func main() {
	if len(os.Args) < 2 {
		fmt.Fprintln(os.Stderr, "usage: rovc dump|gen ...")
		os.Exit(2)
	}
	switch os.Args[1] {
	case "dump":
		cmdDump(os.Args[2:])
	case "gen":
		cmdGen(os.Args[2:])
	case "liftgen":
		cmdLiftGen(os.Args[2:])
	default:
		fmt.Fprintln(os.Stderr, "unknown command")
		os.Exit(2)
	}
}

func cmdDump(args []string) {
	pkg := roPath
	if len(args) > 0 && strings.HasPrefix(args[0], "-pkg=") {
		pkg = roPath + "/" + strings.TrimPrefix(args[0], "-pkg=")
		args = args[1:]
	}
	w, err := loadWorld("/repo", []string{pkg})
	if err != nil {
		panic(err)
	}
	fns := w.allFuncs(pkg)
	if len(args) == 0 {
		for _, k := range sortedKeys(fns) {
			fmt.Println(k)
		}
		return
	}
	for _, a := range args {
		fn := fns[a]
		if fn == nil {
			fmt.Println("no such function", a)
			continue
		}
		fn.WriteTo(os.Stdout)
	}
}

