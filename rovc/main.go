package main

import (
	"fmt"
	"os"

	"golang.org/x/tools/go/packages"
	"golang.org/x/tools/go/ssa"
	"golang.org/x/tools/go/ssa/ssautil"
)

func main() {
	cfg := &packages.Config{Mode: packages.LoadAllSyntax, Dir: "/repo", Env: append(os.Environ(), "GOFLAGS=", "GOWORK=/repo/go.work")}
	pkgs, err := packages.Load(cfg, "github.com/samber/ro")
	if err != nil {
		panic(err)
	}
	prog, spkgs := ssautil.AllPackages(pkgs, ssa.BuilderMode(0))
	prog.Build()
	fmt.Println(len(spkgs), spkgs[0].Pkg.Path())
}
