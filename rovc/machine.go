package main

import (
	"os"
	"fmt"
	"go/ast"
	"go/token"
	"go/types"
	"regexp"
	"sort"
	"strings"

	"golang.org/x/tools/go/ssa"
)

// ---------------------------------------------------------------------------
// Layer M: machine contracts of operators
//
//	//@ operator Take
//	//@   props C04
//	//@   requires count >= 1
//	//@   ghost n int = 0
//	//@   inv index == n && n < count
//	//@   on next(ctx, value) when n + 1 < count : emits Next(ctx, value) ; n' = n + 1
//	//@   on next(ctx, value) when n + 1 >= count : emits Next(ctx, value), Complete(ctx)
//
// Roles (next/error/complete, optionally @<source variable>) are bound structurally: the closure
// passed to a New*Observable* constructor is the subscribe function; the arguments of the
// NewObserver[WithContext] call whose result is passed to <src>.SubscribeWithContext are the callbacks.
// ---------------------------------------------------------------------------

var observableCtors = map[string]bool{
	"NewObservable": true, "NewSafeObservable": true, "NewUnsafeObservable": true, "NewEventuallySafeObservable": true,
	"NewObservableWithContext": true, "NewSafeObservableWithContext": true, "NewUnsafeObservableWithContext": true, "NewEventuallySafeObservableWithContext": true,
	"NewObservableWithConcurrencyMode": true,
}

var safeCtors = map[string]bool{"NewObservable": true, "NewSafeObservable": true, "NewObservableWithContext": true, "NewSafeObservableWithContext": true}

type opCase struct {
	Role    string
	Params  []string
	Guard   string
	Emits   []string
	Updates [][2]string
	Post    []string // relations between the cells before (plain names, old values) and after (primed names) the callback
	Clause  Clause
}

type opGhost struct {
	Name, Sort, Init string
}

type OpSpec struct {
	Name     string
	Block    *Block
	Requires []Clause
	Ghosts   []opGhost
	Inv      []Clause
	Cases    []opCase
	Site     int
	Given    map[string][]string
	Alias    map[string]string
	Track    []string // further event patterns that are part of a callback's observable behaviour (collector calls...)
	Otherwise [][2]string // guard, callee: declared constructor paths that return another observable instead
	Ctor     string      // the observable constructor the operator must use (its concurrency mode is part of its meaning: Serialize)
}

var onRe = regexp.MustCompile(`^([A-Za-z@_0-9.]+)\s*\(([^)]*)\)\s*(?:when\s+(.*?))?\s*:\s*(.*)$`)

func parseOpSpec(b *Block) (*OpSpec, error) {
	sp := &OpSpec{Name: b.Name, Block: b}
	for _, c := range b.Clauses {
		switch c.Kind {
		case "requires":
			sp.Requires = append(sp.Requires, c)
		case "inv":
			sp.Inv = append(sp.Inv, c)
		case "ghost":
			// ghost n int = 0
			parts := strings.SplitN(c.Text, "=", 2)
			fs := strings.Fields(parts[0])
			if len(fs) != 2 {
				return nil, fmt.Errorf("%s:%d: ghost <name> <int|bool|val> = <init>", shortFile(c.File), c.Line)
			}
			g := opGhost{Name: fs[0], Sort: "Int"}
			switch fs[1] {
			case "bool":
				g.Sort = "Bool"
			case "val":
				g.Sort = "U"
			}
			if len(parts) == 2 {
				g.Init = strings.TrimSpace(parts[1])
			}
			sp.Ghosts = append(sp.Ghosts, g)
		case "on":
			m := onRe.FindStringSubmatch(c.Text)
			if m == nil {
				return nil, fmt.Errorf("%s:%d: cannot parse on-clause %q", shortFile(c.File), c.Line, c.Text)
			}
			oc := opCase{Role: m[1], Guard: strings.TrimSpace(m[3]), Clause: c}
			for _, p := range strings.Split(m[2], ",") {
				if p = strings.TrimSpace(p); p != "" {
					oc.Params = append(oc.Params, p)
				}
			}
			for _, act := range splitTop(m[4], ";") {
				act = strings.TrimSpace(act)
				if act == "" {
					continue
				}
				if strings.HasPrefix(act, "emits") {
					rest := strings.TrimSpace(strings.TrimPrefix(act, "emits"))
					oc.Emits = []string{}
					for _, e := range splitTop(rest, ",") {
						if e = strings.TrimSpace(e); e != "" {
							oc.Emits = append(oc.Emits, e)
						}
					}
					continue
				}
				if strings.HasPrefix(act, "post ") {
					oc.Post = append(oc.Post, strings.TrimSpace(strings.TrimPrefix(act, "post ")))
					continue
				}
				kv := strings.SplitN(act, "=", 2)
				if len(kv) == 2 && strings.HasSuffix(strings.TrimSpace(kv[0]), "'") {
					oc.Updates = append(oc.Updates, [2]string{strings.TrimSuffix(strings.TrimSpace(kv[0]), "'"), strings.TrimSpace(kv[1])})
					continue
				}
				return nil, fmt.Errorf("%s:%d: cannot parse action %q", shortFile(c.File), c.Line, act)
			}
			if oc.Emits == nil {
				oc.Emits = []string{}
			}
			sp.Cases = append(sp.Cases, oc)
		case "site":
			fmt.Sscan(c.Text, &sp.Site)
		case "given":
			// given <role> : <assumption over the role's parameters> (listed among the assumptions)
			kv := strings.SplitN(c.Text, ":", 2)
			if len(kv) != 2 {
				return nil, fmt.Errorf("%s:%d: given <role> : <expr>", shortFile(c.File), c.Line)
			}
			if sp.Given == nil {
				sp.Given = map[string][]string{}
			}
			sp.Given[strings.TrimSpace(kv[0])] = append(sp.Given[strings.TrimSpace(kv[0])], strings.TrimSpace(kv[1]))
		case "track":
			sp.Track = append(sp.Track, strings.Fields(c.Text)...)
		case "alias":
			for _, f := range strings.Fields(c.Text) {
				kv := strings.SplitN(f, "=", 2)
				if len(kv) == 2 {
					if sp.Alias == nil {
						sp.Alias = map[string]string{}
					}
					sp.Alias[kv[0]] = kv[1]
				}
			}
		case "otherwise":
			// otherwise <guard> : returns <Callee>() - a declared way for the constructor to return without building this operator
			kv := strings.SplitN(c.Text, ":", 2)
			if len(kv) != 2 || !strings.HasPrefix(strings.TrimSpace(kv[1]), "returns ") {
				return nil, fmt.Errorf("%s:%d: otherwise <guard> : returns <Callee>()", shortFile(c.File), c.Line)
			}
			sp.Otherwise = append(sp.Otherwise, [2]string{strings.TrimSpace(kv[0]), strings.TrimSpace(strings.TrimPrefix(strings.TrimSpace(kv[1]), "returns "))})
		case "constructor":
			sp.Ctor = strings.TrimSpace(c.Text)
		case "props", "note", "teardown", "mode", "userfn", "inline", "scope":
		default:
			return nil, fmt.Errorf("%s:%d: unknown operator clause %q", shortFile(c.File), c.Line, c.Kind)
		}
	}
	return sp, nil
}

// ---------------------------------------------------------------------------
// Structural role binding
// ---------------------------------------------------------------------------

type obsTriple struct {
	Source string        // provenance name of the observable subscribed with this observer ("" if unknown)
	Args   [3]ssa.Value  // onNext, onError, onComplete as passed
	WithCtx bool
	Call   *ssa.Call
	In     *ssa.Function // function containing the NewObserver call
}

type opSite struct {
	Ctor      string
	CtorCall  *ssa.Call
	Subscribe *ssa.Function
	Triples   []obsTriple
	Teardowns []*ssa.Function // closures returned by the subscribe function
	Closures  []*ssa.Function // every closure in the subscribe tree (incl. subscribe itself)
}

func closureTree(fn *ssa.Function) []*ssa.Function {
	out := []*ssa.Function{fn}
	for _, a := range fn.AnonFuncs {
		out = append(out, closureTree(a)...)
	}
	return out
}

func staticCalleeName(c *ssa.CallCommon) string {
	if f := c.StaticCallee(); f != nil {
		if o := f.Origin(); o != nil {
			f = o
		}
		return f.Name()
	}
	return ""
}

// findSites finds the observable-constructor call sites in the closure tree of top.
func findSites(top *ssa.Function) []*opSite {
	var sites []*opSite
	for _, fn := range closureTree(top) {
		for _, b := range fn.Blocks {
			for _, ins := range b.Instrs {
				call, ok := ins.(*ssa.Call)
				if !ok {
					continue
				}
				name := staticCalleeName(call.Common())
				if !observableCtors[name] || len(call.Call.Args) == 0 {
					continue
				}
				var sub *ssa.Function
				switch a := call.Call.Args[0].(type) {
				case *ssa.MakeClosure:
					sub, _ = a.Fn.(*ssa.Function)
				case *ssa.Function:
					if a.Parent() != nil {
						sub = a // a function literal without free variables
					}
				}
				if sub == nil {
					continue
				}
				s := &opSite{Ctor: name, CtorCall: call, Subscribe: sub}
				s.Closures = closureTree(sub)
				s.Triples = findTriples(sub)
				s.Teardowns = findTeardowns(sub)
				sites = append(sites, s)
			}
		}
	}
	return sites
}

func findTriples(sub *ssa.Function) []obsTriple {
	var out []obsTriple
	for _, fn := range closureTree(sub) {
		for _, b := range fn.Blocks {
			for _, ins := range b.Instrs {
				call, ok := ins.(*ssa.Call)
				if !ok {
					continue
				}
				name := staticCalleeName(call.Common())
				slot := map[string]int{"OnNext": 0, "OnNextWithContext": 0, "OnError": 1, "OnErrorWithContext": 1, "OnComplete": 2, "OnCompleteWithContext": 2}
				t := obsTriple{Call: call, WithCtx: strings.HasSuffix(name, "WithContext"), In: fn}
				if name == "NewObserverWithContext" || name == "NewObserver" {
					if len(call.Call.Args) != 3 {
						continue
					}
					copy(t.Args[:], call.Call.Args)
				} else if i, ok := slot[name]; ok && len(call.Call.Args) == 1 {
					// partial observer: the other two callbacks do nothing
					t.Args[i] = call.Call.Args[0]
				} else {
					continue
				}
				// who subscribes with it?
				for _, r := range *call.Referrers() {
					if c2, ok := r.(*ssa.Call); ok && c2.Common().IsInvoke() && strings.HasPrefix(c2.Common().Method.Name(), "Subscribe") {
						t.Source = valueName(c2.Common().Value)
					}
				}
				out = append(out, t)
			}
		}
	}
	return out
}

// valueName traces a value back to a free variable / parameter / cell name.
func valueName(v ssa.Value) string {
	switch v := v.(type) {
	case *ssa.UnOp:
		if v.Op == token.MUL {
			return valueName(v.X)
		}
	case *ssa.FreeVar:
		return v.Name()
	case *ssa.Parameter:
		return v.Name()
	case *ssa.Alloc:
		return v.Comment
	case *ssa.ChangeInterface:
		return valueName(v.X)
	case *ssa.MakeInterface:
		return valueName(v.X)
	case *ssa.Phi:
		return v.Comment
	case *ssa.Call:
		return staticCalleeName(v.Common()) + "()"
	case *ssa.Extract:
		return valueName(v.Tuple)
	case *ssa.IndexAddr:
		return valueName(v.X) + "[]"
	case *ssa.FieldAddr:
		return valueName(v.X)
	}
	return ""
}

func findTeardowns(sub *ssa.Function) []*ssa.Function {
	var out []*ssa.Function
	for _, b := range sub.Blocks {
		for _, ins := range b.Instrs {
			ret, ok := ins.(*ssa.Return)
			if !ok || len(ret.Results) != 1 {
				continue
			}
			v := ret.Results[0]
			if ct, ok := v.(*ssa.ChangeType); ok {
				v = ct.X
			}
			if mc, ok := v.(*ssa.MakeClosure); ok {
				if f, ok := mc.Fn.(*ssa.Function); ok && !strings.HasSuffix(f.Name(), "$bound") {
					out = append(out, f)
				}
			}
		}
	}
	return out
}

// cellsWrittenBy lists the free-variable cells a closure (and the closures it contains) stores to.
func cellsWrittenBy(fns []*ssa.Function) map[string]bool {
	out := map[string]bool{}
	for _, f := range fns {
		for _, fn := range closureTree(f) {
			for _, b := range fn.Blocks {
				for _, ins := range b.Instrs {
					switch ins := ins.(type) {
					case *ssa.Store:
						if fv, ok := ins.Addr.(*ssa.FreeVar); ok {
							out[fv.Name()] = true
						}
						if fa, ok := ins.Addr.(*ssa.FieldAddr); ok {
							if fv, ok := fa.X.(*ssa.FreeVar); ok {
								out[fv.Name()] = true
							}
						}
					case *ssa.MapUpdate:
						if n := valueName(ins.Map); n != "" {
							out[n] = true
						}
					}
				}
			}
		}
	}
	return out
}

// cellTypes collects name -> element type of every free variable / named allocation in the operator's closures.
func cellTypes(top *ssa.Function) map[string]types.Type {
	out := map[string]types.Type{}
	for _, fn := range closureTree(top) {
		for _, fv := range fn.FreeVars {
			if pt, ok := fv.Type().Underlying().(*types.Pointer); ok {
				if _, dup := out[fv.Name()]; !dup {
					out[fv.Name()] = pt.Elem()
				}
			}
		}
		for _, b := range fn.Blocks {
			for _, ins := range b.Instrs {
				if a, ok := ins.(*ssa.Alloc); ok && a.Comment != "" && a.Heap {
					if pt, ok := a.Type().Underlying().(*types.Pointer); ok {
						if _, dup := out[a.Comment]; !dup {
							out[a.Comment] = pt.Elem()
						}
					}
				}
			}
		}
	}
	return out
}

// ---------------------------------------------------------------------------
// Running an operator contract
// ---------------------------------------------------------------------------

var emitAlias = map[string]string{
	"Next": "destination.NextWithContext", "Error": "destination.ErrorWithContext", "Complete": "destination.CompleteWithContext",
}

func isTerminalEvent(name string) bool {
	return strings.HasSuffix(name, ".ErrorWithContext") || strings.HasSuffix(name, ".CompleteWithContext") || strings.HasSuffix(name, ".Error") || strings.HasSuffix(name, ".Complete")
}

type machineRun struct {
	curCases []opCase          // cases of the role being executed (nil for the subscribe function)
	curVars  map[string]SVal   // its parameters
	kc    *kernelCtx
	sp    *OpSpec
	top   *ssa.Function
	site  *opSite
	cells map[string]types.Type
	u     *Unit
	props []string
}

func runMachines(kc *kernelCtx, blocks []*Block, only string, want map[string]bool) []*Unit {
	var units []*Unit
	for _, b := range blocks {
		if b.Kind != "operator" {
			continue
		}
		if only != "" && !strings.Contains(b.Name, only) {
			continue
		}
		if len(want) > 0 && !anyProp(b, want) && !(want["C12"] && b.first("inv") != nil) {
			continue
		}
		units = append(units, runOperator(kc, b))
	}
	return units
}

func runOperator(kc *kernelCtx, b *Block) *Unit {
	u := runOperator0(kc, b)
	if !hasBindingErr(u) {
		return u
	}
	top := kc.w.allFuncs(b.Pkg)[b.Name]
	if top == nil {
		return u
	}
	var extra []*Block
	for k, lb := range kc.loops {
		if strings.HasPrefix(k, b.Pkg+"::"+b.Name+"$") || strings.HasPrefix(k, b.Pkg+"::"+b.Name+"#") {
			extra = append(extra, lb)
		}
	}
	return kc.tryRebind(u, b, b.Name, "", availFor(top), extra, func(k2 *kernelCtx, nb *Block) *Unit { return runOperator0(k2, nb) })
}

func runOperator0(kc *kernelCtx, b *Block) *Unit {
	u := &Unit{Name: b.Name, Props: b.props(), Layer: "M"}
	sp, err := parseOpSpec(b)
	if err != nil {
		u.Errs = append(u.Errs, err.Error())
		return u
	}
	fns := kc.w.allFuncs(b.Pkg)
	top := fns[b.Name]
	if top == nil {
		u.Errs = append(u.Errs, fmt.Sprintf("operator contract %s (%s:%d) does not bind: no such function in %s", b.Name, shortFile(b.File), b.Line, b.Pkg))
		return u
	}
	sites := findSites(top)
	if len(sites) == 0 {
		u.Errs = append(u.Errs, fmt.Sprintf("operator contract %s does not bind: no observable constructor call with a literal subscribe function", b.Name))
		return u
	}
	if sp.Site >= len(sites) {
		u.Errs = append(u.Errs, fmt.Sprintf("operator contract %s: site %d not found (%d sites)", b.Name, sp.Site, len(sites)))
		return u
	}
	mr := &machineRun{kc: kc, sp: sp, top: top, site: sites[sp.Site], cells: cellTypes(top), u: u, props: b.props()}
	// user functions the contract names as events (callfn.finally, alias fallback=finally()) must be parameters / cells of the
	// operator: a renamed parameter would otherwise only show as an event that never occurs
	{
		have := map[string]bool{}
		for n := range mr.cells {
			have[n] = true
		}
		for _, f := range closureTree(top) {
			for _, p := range f.Params {
				have[p.Name()] = true
			}
		}
		// results of user functions: name_0(args), name_1(args) - `name` is a function-typed parameter of the operator
		reRes := regexp.MustCompile(`\b([A-Za-z][A-Za-z0-9]*)_[0-9]\(`)
		seenRes := map[string]bool{}
		for _, c := range b.Clauses {
			for _, m := range reRes.FindAllStringSubmatch(c.Text, -1) {
				n := m[1]
				if n == "ctx" || strings.HasPrefix(n, "add") || have[n] || seenRes[n] {
					continue
				}
				seenRes[n] = true
				u.Errs = append(u.Errs, fmt.Sprintf("operator contract %s does not bind: no function parameter named %s", b.Name, n))
			}
		}
		re := regexp.MustCompile(`callfn\.([A-Za-z_][A-Za-z0-9_]*)`)
		seen := map[string]bool{}
		for _, c := range b.Clauses {
			for _, m := range re.FindAllStringSubmatch(c.Text, -1) {
				if n := m[1]; n != "ANY" && !have[n] && !seen[n] {
					seen[n] = true
					u.Errs = append(u.Errs, fmt.Sprintf("operator contract %s does not bind: no function parameter named %s", b.Name, n))
				}
			}
		}
	}
	u.Funcs = append(u.Funcs, b.Name)
	for _, f := range mr.site.Closures {
		u.Funcs = append(u.Funcs, funcKey(f))
	}
	mr.run()
	u.Errs = dedup(u.Errs)
	return u
}

func (mr *machineRun) roleCases(role string) []opCase {
	var out []opCase
	for _, c := range mr.sp.Cases {
		if c.Role == role {
			out = append(out, c)
		}
	}
	return out
}

func (mr *machineRun) run() {
	sp := mr.sp
	site := mr.site
	// which roles exist
	type roleBind struct {
		name   string
		triple *obsTriple
		idx    int
	}
	var roles []roleBind
	kinds := []string{"next", "error", "complete"}
	for ti := range site.Triples {
		t := &site.Triples[ti]
		for i, k := range kinds {
			if t.Args[i] == nil {
				continue // partial observer (OnNext...): this callback does nothing
			}
			name := k
			if len(site.Triples) > 1 {
				src := t.Source
				for ak, av := range sp.Alias {
					if av == src {
						src = ak // `alias tick=Interval()` names the subscription made on the value Interval() returns
					}
				}
				name = k + "@" + src
			}
			roles = append(roles, roleBind{name, t, i})
		}
	}
	used := map[string]bool{}
	for _, rb := range roles {
		cases := mr.roleCases(rb.name)
		if len(cases) == 0 && len(site.Triples) > 1 {
			// also accept un-suffixed role names when they are unambiguous for this kind
			continue
		}
		used[rb.name] = true
		if len(cases) == 0 {
			// default: identity forward for error / complete
			switch kinds[rb.idx] {
			case "error":
				cases = []opCase{{Role: rb.name, Params: []string{"ctx", "err"}, Emits: []string{"Error(ctx, err)"}}}
			case "complete":
				cases = []opCase{{Role: rb.name, Params: []string{"ctx"}, Emits: []string{"Complete(ctx)"}}}
			default:
				mr.u.Errs = append(mr.u.Errs, fmt.Sprintf("operator %s: no `on %s` clause", sp.Name, rb.name))
				continue
			}
		}
		mr.runRole(rb.name, rb.triple, rb.idx, cases)
	}
	for _, c := range sp.Cases {
		if !used[c.Role] && c.Role != "subscribe" {
			mr.u.Errs = append(mr.u.Errs, fmt.Sprintf("%s:%d: role %s does not bind to any observer callback of %s", shortFile(c.Clause.File), c.Clause.Line, c.Role, sp.Name))
		}
	}
	mr.runInit()
	mr.runConstruct()
}

func (mr *machineRun) newExec() (*Exec, *State) {
	d := newDecls()
	x := newExec(mr.kc.w, d)
	x.NamedCells = true
	st := &State{Heap: map[string]SVal{}, Zero: map[string]bool{}, Init: map[string]SVal{}, Held: map[string]bool{}, Ghost: map[string]string{}, Named: map[string]string{}, NamedV: map[string]SVal{}, Written: map[string]bool{}}
	// the destination handed to a subscribe function is the gate built by SubscribeWithContext (layer K): never nil
	st.assume(not(eq(q(d.constOf("destination", "U")), "nil")))
	for _, g := range mr.sp.Ghosts {
		st.Ghost[g.Name] = q(d.constOf(g.Name, g.Sort))
		st.Named["ghostsort:"+g.Name] = g.Sort
		st.Named["ghost0:"+g.Name] = st.Ghost[g.Name]
	}
	return x, st
}

func (mr *machineRun) env(x *Exec, st *State, vars map[string]SVal) *Env {
	userFn := map[string]bool{}
	sigs := map[string]*types.Signature{}
	for name, t := range mr.cells {
		if sig, ok := t.Underlying().(*types.Signature); ok {
			userFn[name] = true
			sigs[name] = sig
		}
	}
	env := &Env{X: x, St: st, Vars: vars, Events: st.Events, Alias: emitAlias, UserFn: userFn, UserSig: sigs,
		Track: func(n string) bool { return strings.HasPrefix(n, "destination.") }}
	env.Alias = map[string]string{}
	for k, v := range emitAlias {
		env.Alias[k] = v
	}
	for k, v := range mr.sp.Alias {
		env.Alias[k] = v
	}
	env.CellType = func(name string) types.Type {
		if t, ok := mr.cells[name]; ok {
			return t
		}
		for _, p := range mr.top.Params {
			if p.Name() == name {
				return p.Type() // an operator parameter that is not captured: a constant of the subscription
			}
		}
		return nil
	}
	return env
}

// touch creates pre-state symbols for every cell mentioned in the operator's clauses.
func (mr *machineRun) touch(x *Exec, st *State) {
	idRe := regexp.MustCompile(`[A-Za-z_][A-Za-z0-9_]*`)
	seen := map[string]bool{}
	var texts []string
	for _, c := range mr.sp.Block.Clauses {
		texts = append(texts, c.Text)
	}
	for _, t := range texts {
		for _, id := range idRe.FindAllString(t, -1) {
			if seen[id] {
				continue
			}
			seen[id] = true
			if ct, ok := mr.cells[id]; ok {
				if _, isFunc := ct.Underlying().(*types.Signature); isFunc {
					continue
				}
				x.load(st, id, ct, token.NoPos)
			}
		}
	}
}

func (mr *machineRun) assumeRequiresInv(x *Exec, st *State, vars map[string]SVal) {
	env := mr.env(x, st, vars)
	for _, c := range append(append([]Clause{}, mr.sp.Requires...), mr.sp.Inv...) {
		g, err := env.evalBool(c.Text)
		if err != nil {
			mr.u.Errs = append(mr.u.Errs, fmt.Sprintf("%s:%d: %v", shortFile(c.File), c.Line, err))
			continue
		}
		st.assume(g)
	}
}

func (mr *machineRun) hooks(x0 *Exec) Hooks {
	inl := map[string]bool{}
	for _, c := range mr.sp.Block.all("inline") {
		for _, f := range strings.Fields(c.Text) {
			inl[f] = true
		}
	}
	h := mr.kc.hooks(mr.sp.Block, nil, "", inl, func(st *State, ex *Exit) *Env {
		vars := map[string]SVal{}
		if len(st.Frames) > 0 {
			fr := st.Frames[0]
			for _, p := range fr.Fn.Params {
				if v, ok := fr.Vals[p]; ok {
					vars[p.Name()] = v
				}
			}
		}
		return mr.env(x0, st, vars)
	})
	tdCells := cellsWrittenBy(mr.site.Teardowns)
	var cbFns []*ssa.Function
	for _, t := range mr.site.Triples {
		for _, a := range t.Args {
			switch v := a.(type) {
			case *ssa.MakeClosure:
				if f, ok := v.Fn.(*ssa.Function); ok && !strings.HasSuffix(f.Name(), "$bound") {
					cbFns = append(cbFns, f)
				}
			case *ssa.Function:
				cbFns = append(cbFns, v)
			}
		}
	}
	cbCells := cellsWrittenBy(cbFns)
	h.OnEvent = func(x *Exec, st *State, ev *Event) {
		if strings.HasSuffix(ev.Name, ".SubscribeWithContext") || strings.HasSuffix(ev.Name, ".Subscribe") || strings.HasSuffix(ev.Name, ".Wait") {
			// a (synchronous or awaited) source runs its observer's callbacks inside this call. The invariant must
			// hold when they start (with this callback's ghost updates already applied); afterwards the cells they
			// write and the ghosts are unknown, constrained only by the invariant.
			if mr.curCases != nil && len(mr.sp.Inv) > 0 && st.Named["reentered"] != "true" {
				for _, c := range mr.curCases {
					envOld := mr.env(x, st, mr.curVars)
					envOld.Old = true
					guard := "true"
					if c.Guard != "" {
						if g, err := envOld.evalBool(c.Guard); err == nil {
							guard = g
						}
					}
					post := st.clone()
					for _, up := range c.Updates {
						if v, err := envOld.evalAny(up[1]); err == nil {
							post.Ghost[up[0]] = x.termOf(st, v)
						}
					}
					envPost := mr.env(x, post, mr.curVars)
					var is []string
					for _, ic := range mr.sp.Inv {
						g, err := envPost.evalBool(ic.Text)
						if err != nil {
							g = "false"
						}
						is = append(is, g)
					}
					x.obl(st, "inv-at-reentry", imp(guard, and(is...)), "the invariant holds (ghost updates applied) when a nested subscription may run callbacks re-entrantly", ev.Pos)
				}
			}
			for name := range cbCells {
				found := false
				for key, old := range st.Heap {
					if key == name || strings.HasPrefix(key, name+".") || strings.HasPrefix(key, name+"#") {
						st.Heap[key] = x.freshLike(st, key+"@callbacks", old, old.GoT)
						st.Written[key] = true // a loop around this subscription forgets the cell at its head as well
						found = true
					}
				}
				if !found && st.Zero[name] {
					// a zero-initialised cell that was not read yet (`var lastErr error` in a loop body): unknown as well
					st.Named["unknown:"+name] = "true"
					st.Written[name] = true
				}
			}
			if len(mr.sp.Inv) > 0 {
				for _, g := range mr.sp.Ghosts {
					st.Ghost[g.Name] = q(x.D.fresh(g.Name+"@after", g.Sort))
				}
				env := mr.env(x, st, mr.curVars)
				for _, ic := range mr.sp.Inv {
					if g, err := env.evalBool(ic.Text); err == nil {
						st.assume(g)
					}
				}
				st.Named["reentered"] = "true"
			}
			return
		}
		if !strings.HasPrefix(ev.Name, "destination.") {
			return
		}
		// a downstream call may run the teardown re-entrantly: the cells it writes are unknown afterwards
		for name := range tdCells {
			for key, old := range st.Heap {
				if key == name || strings.HasPrefix(key, name+".") {
					st.Heap[key] = x.freshLike(st, key+"@reentrant", old, old.GoT)
				}
			}
		}
	}
	return h
}

type pathEnd struct {
	st *State
	ex Exit
}

// effective returns the destination events of a path truncated after the first terminal.
func effective(evs []Event, extra ...string) (out []Event, closed bool) {
	for _, ev := range evs {
		tracked := strings.HasPrefix(ev.Name, "destination.") || strings.HasPrefix(ev.Name, "loop:")
		for _, p := range extra {
			if eventNameMatch(normEventName(p), ev.Name) {
				tracked = true
			}
		}
		if !tracked {
			continue
		}
		out = append(out, ev)
		if strings.HasPrefix(ev.Name, "destination.") && isTerminalEvent(ev.Name) {
			return out, true
		}
	}
	return out, false
}

func (mr *machineRun) runRole(role string, t *obsTriple, idx int, cases []opCase) {
	x, st := mr.newExec()
	x.H = mr.hooks(x)
	mr.touch(x, st)
	var ends []pathEnd
	arg := t.Args[idx]
	var params []SVal
	var cbSig *types.Signature
	if s, ok := arg.Type().Underlying().(*types.Signature); ok {
		cbSig = s
	}
	if cbSig == nil {
		mr.u.Errs = append(mr.u.Errs, fmt.Sprintf("%s/%s: callback is not a function", mr.sp.Name, role))
		return
	}
	var cbFn *ssa.Function
	switch a := arg.(type) {
	case *ssa.MakeClosure:
		cbFn, _ = a.Fn.(*ssa.Function)
	case *ssa.Function:
		cbFn = a
	}
	for i := 0; i < cbSig.Params().Len(); i++ {
		pv := x.symbolic(st, fmt.Sprintf("%s$%d", role, i), cbSig.Params().At(i).Type())
		if cbFn != nil && i < len(cbFn.Params) {
			pv.Src = cbFn.Params[i].Name() // events on a parameter are named after it (ctx.Value, ...)
		}
		if isContextType(cbSig.Params().At(i).Type()) && pv.K == KU {
			// induction hypothesis of C09: upstream never calls back with a nil context
			st.assume(not(eq(pv.T, "nil")))
		}
		params = append(params, pv)
	}
	vars := map[string]SVal{}
	pnames := cases[0].Params
	for i, p := range pnames {
		if i < len(params) {
			vars[p] = params[i]
		}
	}
	mr.curCases, mr.curVars = cases, vars
	defer func() { mr.curCases, mr.curVars = nil, nil }()
	mr.assumeRequiresInv(x, st, vars)
	for _, g := range mr.sp.Given[role] {
		t, err := mr.env(x, st, vars).evalBool(g)
		if err != nil {
			mr.u.Errs = append(mr.u.Errs, fmt.Sprintf("%s: given %s: %v", mr.sp.Name, role, err))
			continue
		}
		st.assume(t)
	}
	pos := ""
	switch a := arg.(type) {
	case *ssa.MakeClosure:
		fn := a.Fn.(*ssa.Function)
		pos = x.pos(fn.Pos())
		if strings.HasSuffix(fn.Name(), "$bound") {
			// forward: destination.X passed as a method value
			recvName := valueName(a.Bindings[0])
			ev := Event{Name: recvName + "." + strings.TrimSuffix(fn.Name(), "$bound"), Args: params}
			st.Events = append(st.Events, ev)
			ends = append(ends, pathEnd{st, Exit{Kind: ExitReturn}})
		} else {
			x.run(st, fn, params, nil, func(s2 *State, ex Exit) { ends = append(ends, pathEnd{s2, ex}) })
		}
	case *ssa.Function:
		// a closure without free variables
		pos = x.pos(a.Pos())
		x.run(st, a, params, nil, func(s2 *State, ex Exit) { ends = append(ends, pathEnd{s2, ex}) })
	default:
		// a user-supplied function or something we cannot see through
		mr.u.Errs = append(mr.u.Errs, fmt.Sprintf("%s/%s: callback is not a literal closure (%T)", mr.sp.Name, role, arg))
		return
	}
	byName := map[string][]Obl{}
	notes := map[string]string{}
	var pcs [][]string
	add := func(name, goal, note string, pc []string) {
		byName[name] = append(byName[name], Obl{Name: name, Goal: goal, PC: pc})
		if _, ok := notes[name]; !ok {
			notes[name] = note
		}
	}
	for _, e := range ends {
		if e.st.Err != "" {
			mr.u.Errs = append(mr.u.Errs, fmt.Sprintf("%s/%s: %s", mr.sp.Name, role, e.st.Err))
			continue
		}
		for _, o := range e.st.Obls {
			byName[o.Name] = append(byName[o.Name], o)
			if _, ok := notes[o.Name]; !ok {
				notes[o.Name] = o.Note
			}
		}
		if e.ex.Kind == ExitStop {
			continue
		}
		pcs = append(pcs, e.st.PC)
		add("nopanic", boolLit(e.ex.Kind != ExitPanic), "the callback does not panic", e.st.PC)
		evs, closed := effective(e.st.Events, mr.trackList()...)
		if debugPaths {
			var all, kept []string
			for _, ev := range e.st.Events {
				all = append(all, ev.Name)
			}
			for _, ev := range evs {
				kept = append(kept, ev.Name)
			}
			fmt.Fprintf(os.Stderr, "%s/%s exit=%d\n  all events: %v\n  tracked:    %v\n", mr.sp.Name, role, e.ex.Kind, all, kept)
		}
		// loop markers are part of the observable behaviour only when the contract speaks about the loop
		mentionsLoop := false
		for _, c := range cases {
			for _, em := range c.Emits {
				if strings.HasPrefix(em, "loop.") {
					mentionsLoop = true
				}
			}
		}
		if !mentionsLoop {
			var kept []Event
			for _, ev := range evs {
				if !strings.HasPrefix(ev.Name, "loop:") {
					kept = append(kept, ev)
				}
			}
			evs = kept
		}
		for _, ev := range evs {
			if strings.HasSuffix(ev.Name, "WithContext") && len(ev.Args) > 0 && ev.Args[0].K == KU {
				add("ctx-nonnil", not(eq(ev.Args[0].T, "nil")), fmt.Sprintf("on %s: no notification is forwarded with a nil context", role), e.st.PC)
			}
		}
		var guards []string
		for ci, c := range cases {
			cv := map[string]SVal{}
			for i, p := range c.Params {
				if i < len(params) {
					cv[p] = params[i]
				}
			}
			envOld := mr.env(x, e.st, cv)
			envOld.Old = true
			guard := "true"
			if c.Guard != "" {
				g, err := envOld.evalBool(c.Guard)
				if err != nil {
					mr.u.Errs = append(mr.u.Errs, fmt.Sprintf("%s:%d: guard: %v", shortFile(c.Clause.File), c.Clause.Line, err))
					g = "false"
				}
				guard = g
			}
			guards = append(guards, guard)
			// emits: shape (how many notifications, of which kinds) and arguments (contexts and values) separately
			shape := len(evs) == len(c.Emits)
			var cs []string
			if shape {
				for i, pat := range c.Emits {
					ex, err := parseSpecExpr(pat)
					if err != nil {
						mr.u.Errs = append(mr.u.Errs, fmt.Sprintf("%s:%d: %v", shortFile(c.Clause.File), c.Clause.Line, err))
						shape = false
						break
					}
					if !envOld.matchEventName(ex, evs[i]) {
						shape = false
						break
					}
					m, err := envOld.matchEvent(ex, evs[i])
					if err != nil {
						mr.u.Errs = append(mr.u.Errs, fmt.Sprintf("%s:%d: emits: %v", shortFile(c.Clause.File), c.Clause.Line, err))
						m = "false"
					}
					cs = append(cs, m)
				}
			}
			add("emits", imp(guard, boolLit(shape)), fmt.Sprintf("on %s: the calls made on destination (up to the first terminal) are the notifications the contract emits, in number and kind", role), e.st.PC)
			if shape {
				add("emits-args", imp(guard, and(cs...)), fmt.Sprintf("on %s: each emitted notification carries exactly the context and value the contract names", role), e.st.PC)
			}
			for pi, pexpr := range c.Post {
				envPost := mr.env(x, e.st, cv)
				envPost.Old = true // plain names denote the state before the callback, primed names the state after
				g, err := envPost.evalBool(pexpr)
				if err != nil {
					mr.u.Errs = append(mr.u.Errs, fmt.Sprintf("%s:%d: post: %v", shortFile(c.Clause.File), c.Clause.Line, err))
					g = "false"
				}
				add(fmt.Sprintf("post#%d", pi), imp(guard, g), fmt.Sprintf("on %s: %s", role, pexpr), e.st.PC)
			}
			// invariant after, unless the operator closed its output
			specCloses := false
			for _, em := range c.Emits {
				if strings.HasPrefix(em, "Error(") || strings.HasPrefix(em, "Complete(") {
					specCloses = true
				}
			}
			if !closed && !specCloses {
				post := e.st.clone()
				for _, up := range c.Updates {
					if e.st.Named["reentered"] == "true" {
						break // the updates were applied before the nested subscription; the ghosts are its outcome now
					}
					v, err := envOld.evalAny(up[1])
					if err != nil {
						mr.u.Errs = append(mr.u.Errs, fmt.Sprintf("%s:%d: update of %s: %v", shortFile(c.Clause.File), c.Clause.Line, up[0], err))
						continue
					}
					post.Ghost[up[0]] = x.termOf(e.st, v)
				}
				envPost := mr.env(x, post, cv)
				var is []string
				for _, ic := range mr.sp.Inv {
					g, err := envPost.evalBool(ic.Text)
					if err != nil {
						mr.u.Errs = append(mr.u.Errs, fmt.Sprintf("%s:%d: inv: %v", shortFile(ic.File), ic.Line, err))
						g = "false"
					}
					is = append(is, g)
				}
				add("inv", imp(guard, and(is...)), fmt.Sprintf("on %s: the invariant is re-established (ghost updates applied) unless the output was closed", role), append(append([]string{}, e.st.PC...), post.PC[len(e.st.PC):]...))
			}
			_ = ci
		}
		add("exhaustive", or(guards...), fmt.Sprintf("on %s: the contract's cases cover every state allowed by the invariant", role), e.st.PC)
	}
	mr.emit(x, role, byName, notes, pcs, pos)
}

func (mr *machineRun) emit(x *Exec, role string, byName map[string][]Obl, notes map[string]string, pcs [][]string, pos string) {
	names := make([]string, 0, len(byName))
	for n := range byName {
		names = append(names, n)
	}
	sort.Strings(names)
	for _, n := range names {
		smt, trivial, _ := mergeObls(x.D, n, byName[n])
		props := mr.props
		if n == "emits" || n == "exhaustive" {
			// the number and kind of notifications is not a context-flow matter
			props = nil
			for _, p := range mr.props {
				if p != "C09" {
					props = append(props, p)
				}
			}
		}
		if !strings.HasPrefix(role, "next") {
			// C08 speaks about a producer's call to Next: what the terminal callbacks emit is not a backpressure matter
			var kept []string
			for _, p := range props {
				if p != "C08" {
					kept = append(kept, p)
				}
			}
			props = kept
		}
		if n == "inv-initial" {
			// the state of a subscription starts from its initial value whoever subscribed before: also a C12 fact
			props = append(append([]string{}, props...), "C12")
		}
		o := OutObl{Name: qualName(mr.sp.Block) + "/" + role + "/" + n, Props: props, Layer: "M", Func: qualName(mr.sp.Block), Clause: notes[n], Pos: pos, Paths: len(byName[n]), Contract: shortFile(mr.sp.Block.File)}
		if trivial {
			o.Backend, o.Status = "structural", "discharged"
		} else {
			o.Backend, o.SMT = "smt", smt
		}
		mr.u.Obls = append(mr.u.Obls, o)
	}
	if len(pcs) > 0 {
		mr.u.Obls = append(mr.u.Obls, OutObl{Name: qualName(mr.sp.Block) + "/" + role + "/cover", Props: mr.props, Layer: "M", Func: qualName(mr.sp.Block), Clause: "vacuity cover: requires and invariant are satisfiable on some path", Backend: "smt", SMT: coverQuery(x.D, pcs), Cover: true, Paths: len(pcs), Contract: shortFile(mr.sp.Block.File)})
	}
}

// runInit executes the subscribe function and checks, at every upstream subscription it makes, that the
// invariant holds with the ghosts' initial values; it also checks the `on subscribe` emits if present.
func (mr *machineRun) runInit() {
	x, st := mr.newExec()
	x.H = mr.hooks(x)
	sub := mr.site.Subscribe
	var params []SVal
	for _, p := range sub.Params {
		params = append(params, x.symbolic(st, p.Name(), p.Type()))
	}
	// requires are assumed (they are established by the constructor, checked separately)
	mr.touchRequires(x, st)
	env0 := mr.env(x, st, map[string]SVal{})
	for _, c := range mr.sp.Requires {
		if g, err := env0.evalBool(c.Text); err == nil {
			st.assume(g)
		}
	}
	for _, g := range mr.sp.Ghosts {
		if g.Init != "" {
			v, err := env0.evalAny(g.Init)
			if err == nil {
				st.Ghost[g.Name] = x.termOf(st, v)
			}
		}
	}
	byName := map[string][]Obl{}
	notes := map[string]string{}
	var pcs [][]string
	checked := 0
	h := x.H
	prevOnEvent := h.OnEvent
	h.OnEvent = func(x *Exec, st *State, ev *Event) {
		defer func() {
			if prevOnEvent != nil {
				prevOnEvent(x, st, ev) // the cells written by callbacks are unknown after the subscription
			}
		}()
		if strings.HasSuffix(ev.Name, ".SubscribeWithContext") || strings.HasSuffix(ev.Name, ".Subscribe") {
			env := mr.env(x, st, map[string]SVal{})
			var is []string
			for _, ic := range mr.sp.Inv {
				g, err := env.evalBool(ic.Text)
				if err != nil {
					mr.u.Errs = append(mr.u.Errs, fmt.Sprintf("%s:%d: inv at subscription: %v", shortFile(ic.File), ic.Line, err))
					g = "false"
				}
				is = append(is, g)
			}
			checked++
			x.obl(st, "inv-initial", and(is...), "the invariant holds, with the ghosts' initial values, when the upstream is subscribed", ev.Pos)
		}
	}
	x.H = h
	var ends []pathEnd
	x.run(st, sub, params, nil, func(s2 *State, ex Exit) { ends = append(ends, pathEnd{s2, ex}) })
	subCases := mr.roleCases("subscribe")
	for _, e := range ends {
		if debugPaths {
			var all []string
			for _, ev := range e.st.Events {
				all = append(all, ev.Name)
			}
			var on []string
			for _, o := range e.st.Obls {
				on = append(on, o.Name)
			}
			fmt.Fprintf(os.Stderr, "%s/subscribe exit=%d err=%q\n  events: %v\n  obligations: %v\n", mr.sp.Name, e.ex.Kind, e.st.Err, all, on)
		}
		if e.st.Err != "" {
			mr.u.Errs = append(mr.u.Errs, fmt.Sprintf("%s/subscribe: %s", mr.sp.Name, e.st.Err))
			continue
		}
		for _, o := range e.st.Obls {
			byName[o.Name] = append(byName[o.Name], o)
			if _, ok := notes[o.Name]; !ok {
				notes[o.Name] = o.Note
			}
		}
		if e.ex.Kind == ExitStop {
			continue
		}
		pcs = append(pcs, e.st.PC)
		if len(subCases) > 0 {
			evs, _ := effective(e.st.Events, mr.trackList()...)
			for _, c := range subCases {
				cv := map[string]SVal{}
				for i, p := range c.Params {
					if i < len(params) {
						cv[p] = params[i]
					}
				}
				envOld := mr.env(x, e.st, cv)
				envOld.Old = true
				guard := "true"
				if c.Guard != "" {
					g, err := envOld.evalBool(c.Guard)
					if err != nil {
						g = "false"
						mr.u.Errs = append(mr.u.Errs, fmt.Sprintf("%s:%d: guard: %v", shortFile(c.Clause.File), c.Clause.Line, err))
					}
					guard = g
				}
				match := "true"
				if len(evs) != len(c.Emits) {
					match = "false"
				} else {
					var cs []string
					for i, pat := range c.Emits {
						ex, err := parseSpecExpr(pat)
						if err != nil {
							cs = append(cs, "false")
							continue
						}
						m, err := envOld.matchEvent(ex, evs[i])
						if err != nil {
							mr.u.Errs = append(mr.u.Errs, fmt.Sprintf("%s:%d: emits: %v", shortFile(c.Clause.File), c.Clause.Line, err))
							m = "false"
						}
						cs = append(cs, m)
					}
					match = and(cs...)
				}
				byName["emits"] = append(byName["emits"], Obl{Name: "emits", Goal: imp(guard, match), PC: e.st.PC})
				notes["emits"] = "on subscribe: the calls made on destination by the subscribe function are exactly the contract's emits"
			}
		}
	}
	if len(mr.sp.Inv) > 0 && checked == 0 && len(mr.site.Triples) > 0 {
		mr.u.Errs = append(mr.u.Errs, fmt.Sprintf("%s: the subscribe function makes no upstream subscription at which the invariant could be initialised", mr.sp.Name))
	}
	mr.emit(x, "subscribe", byName, notes, pcs, x.pos(sub.Pos()))
}

func (mr *machineRun) touchRequires(x *Exec, st *State) {
	idRe := regexp.MustCompile(`[A-Za-z_][A-Za-z0-9_]*`)
	for _, c := range mr.sp.Requires {
		for _, id := range idRe.FindAllString(c.Text, -1) {
			if ct, ok := mr.cells[id]; ok {
				if _, isFunc := ct.Underlying().(*types.Signature); !isFunc {
					x.load(st, id, ct, token.NoPos)
				}
			}
		}
	}
}

// evalAny evaluates an expression of any sort.
func (e *Env) evalAny(expr string) (SVal, error) {
	ex, err := parseSpecExpr(expr)
	if err != nil {
		return SVal{}, err
	}
	return e.eval(ex)
}

var _ = ast.NewIdent

// runConstruct: what the operator's constructor does before any subscription. The constructor function (and the
// func(source) closure it returns) is executed for all parameters:
//   - requires-established: the `requires` clauses are preconditions of the subscribe function; they are assumed in every
//     callback, so they are proved at the observable-constructor call from the path condition (argument checks such as
//     `if count < 0 { panic }`); the cells they mention may not be written by the subscription;
//   - every-path-builds-the-operator: a path that returns without reaching the observable constructor (a shortcut such as
//     `if count == 0 { return Empty() }`) must be one of the contract's `otherwise <guard> : returns <Callee>()` clauses.
func (mr *machineRun) runConstruct() {
	idRe := regexp.MustCompile(`[A-Za-z_][A-Za-z0-9_]*`)
	written := cellsWrittenBy(mr.site.Closures)
	for _, c := range mr.sp.Requires {
		for _, id := range idRe.FindAllString(c.Text, -1) {
			if written[id] {
				mr.u.Errs = append(mr.u.Errs, fmt.Sprintf("%s:%d: requires mentions %s, which the subscription writes", shortFile(c.File), c.Line, id))
			}
		}
	}
	x, st := mr.newExec()
	x.H = mr.hooks(x)
	h := x.H
	byName := map[string][]Obl{}
	notes := map[string]string{}
	reached := 0
	var pcs [][]string
	ctorPos := mr.site.CtorCall.Pos()
	h.OnEvent = func(x *Exec, st *State, ev *Event) {
		if ev.Pos != ctorPos || !strings.HasPrefix(ev.Name, "call:") {
			return
		}
		reached++
		st.Named["ctor-reached"] = "true"
		pcs = append(pcs, append([]string{}, st.PC...))
		if len(mr.sp.Requires) == 0 {
			return
		}
		env := mr.env(x, st, map[string]SVal{})
		var gs []string
		for _, c := range mr.sp.Requires {
			g, err := env.evalBool(c.Text)
			if err != nil {
				mr.u.Errs = append(mr.u.Errs, fmt.Sprintf("%s:%d: requires at construction: %v", shortFile(c.File), c.Line, err))
				g = "false"
			}
			gs = append(gs, g)
		}
		x.obl(st, "requires-established", and(gs...), "the operator's requires clauses hold whenever the observable is constructed (the constructor's argument checks establish them)", ev.Pos)
	}
	h.Callee = func(fn *ssa.Function) *CalleeSpec { return nil }
	x.H = h
	var params []SVal
	for _, p := range mr.top.Params {
		v := x.symbolic(st, p.Name(), p.Type())
		params = append(params, v)
		if _, isCell := mr.cells[p.Name()]; !isCell {
			st.Heap[p.Name()] = v // a parameter that no closure captures: visible to requires under its own name
		}
	}
	finish := func(s2 *State, ex Exit) {
		if ex.Kind == ExitReturn && s2.Named["ctor-reached"] != "true" {
			// a shortcut: must be declared
			env := mr.env(x, s2, map[string]SVal{})
			var alts []string
			for _, o := range mr.sp.Otherwise {
				g, err := env.evalBool(o[0])
				if err != nil {
					mr.u.Errs = append(mr.u.Errs, fmt.Sprintf("%s: otherwise %s: %v", mr.sp.Name, o[0], err))
					continue
				}
				isCallee := len(ex.Results) == 1 && (ex.Results[0].Src == o[1] || (ex.Results[0].Fn != nil && funcKey(ex.Results[0].Fn) == o[1]))
				alts = append(alts, and(g, boolLit(isCallee)))
			}
			what := "?"
			if len(ex.Results) == 1 {
				what = ex.Results[0].Src
				if what == "" && ex.Results[0].Fn != nil {
					what = funcKey(ex.Results[0].Fn)
				}
			}
			x.obl(s2, "every-path-builds-the-operator", or(alts...), "a constructor path returns "+what+" instead of building the operator, and the contract declares no such shortcut (otherwise <guard> : returns <Callee>())", mr.top.Pos())
		}
		for _, o := range s2.Obls {
			byName[o.Name] = append(byName[o.Name], o)
			if _, ok := notes[o.Name]; !ok {
				notes[o.Name] = o.Note
			}
		}
	}
	inTree := func(root, f *ssa.Function) bool {
		for _, g := range closureTree(root) {
			if g == f {
				return true
			}
		}
		return false
	}
	x.run(st, mr.top, params, nil, func(s2 *State, ex Exit) {
		if s2.Err != "" {
			mr.u.Errs = append(mr.u.Errs, fmt.Sprintf("%s/construct: %s", mr.sp.Name, s2.Err))
			return
		}
		if ex.Kind == ExitReturn && len(ex.Results) == 1 && (ex.Results[0].K == KClosure || ex.Results[0].K == KFn) && ex.Results[0].Fn != nil && inTree(ex.Results[0].Fn, mr.site.CtorCall.Parent()) {
			cl := ex.Results[0]
			var ps []SVal
			for _, p := range cl.Fn.Params {
				ps = append(ps, x.symbolic(s2, p.Name(), p.Type()))
			}
			x.run(s2, cl.Fn, ps, cl.Binds, func(s3 *State, ex3 Exit) {
				if s3.Err != "" {
					mr.u.Errs = append(mr.u.Errs, fmt.Sprintf("%s/construct: %s", mr.sp.Name, s3.Err))
					return
				}
				finish(s3, ex3)
			})
			return
		}
		finish(s2, ex)
	})
	if reached == 0 {
		mr.u.Errs = append(mr.u.Errs, fmt.Sprintf("%s: the observable constructor call was not reached from the operator's entry", mr.sp.Name))
	}
	only := map[string][]Obl{}
	for _, n := range []string{"requires-established", "every-path-builds-the-operator", "constructor"} {
		if len(byName[n]) > 0 {
			only[n] = byName[n]
		}
	}
	if mr.sp.Ctor != "" {
		only["constructor"] = []Obl{{Name: "constructor", Goal: boolLit(mr.site.Ctor == mr.sp.Ctor), PC: nil}}
		notes["constructor"] = "the observable is built with " + mr.sp.Ctor + " (found: " + mr.site.Ctor + ")"
	}
	if _, ok := only["every-path-builds-the-operator"]; !ok {
		only["every-path-builds-the-operator"] = []Obl{{Name: "every-path-builds-the-operator", Goal: "true", PC: nil}}
		notes["every-path-builds-the-operator"] = "every returning path of the constructor builds the operator"
	}
	mr.emit(x, "construct", only, notes, pcs, x.pos(mr.top.Pos()))
}

// trackList: the contract's `track` names with the operator's aliases resolved.
func (mr *machineRun) trackList() []string {
	var out []string
	for _, p := range mr.sp.Track {
		if a, ok := mr.sp.Alias[p]; ok {
			p = a
		} else if i := strings.Index(p, "."); i > 0 {
			if a, ok := mr.sp.Alias[p[:i]]; ok {
				p = a + p[i:]
			}
		}
		out = append(out, p)
	}
	return out
}
