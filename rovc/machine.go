package main

func runMachines(kc *kernelCtx, blocks []*Block, only string, want map[string]bool) []*Unit { return nil }
