package main

// D1: delegating variants. Most of ro's exported surface is one-expression functions that return their
// canonical form applied to the same arguments, user callbacks wrapped in an adapter lambda:
//
//	func Map(project)         { return MapIWithContext(func(ctx, v, _) { return ctx, project(v) }) }
//	func TapOnNext(onNext)    { return Tap(onNext, func(error) {}, func() {}) }
//	func Just(values ...T)    { return Of(values...) }
//
// The contract of such a variant is a term equality with the canonical operator, and it is derived from the
// two signatures alone (DESIGN.md, layer D): every parameter is forwarded, parameters of the same type keep
// their order, and an adapter lambda calls the user function exactly once with its own parameters in
// order and returns exactly the results of that call (the context parameter is passed through when the user
// function does not return one). Nothing may be computed in between (no negation, no index arithmetic).
// Functions that are not of this shape generate no obligation (and are not counted as proved).

import (
	"fmt"
	"go/types"
	"sort"
	"strings"

	"golang.org/x/tools/go/ssa"
)

type delegInfo struct {
	fn       *ssa.Function
	call     *ssa.Call
	callee   *ssa.Function
	adapters []*ssa.Function
}

// paramOf resolves a value to the parameter of fn it forwards: the parameter itself, or a load of / pointer to
// the cell the parameter was spilled to (`t0 = new T (p); *t0 = p`).
func delegParamOf(fn *ssa.Function, v ssa.Value) *ssa.Parameter {
	switch t := v.(type) {
	case *ssa.Parameter:
		if t.Parent() == fn {
			return t
		}
	case *ssa.ChangeType:
		return delegParamOf(fn, t.X)
	case *ssa.UnOp:
		if al, ok := t.X.(*ssa.Alloc); ok {
			return delegCellParam(fn, al)
		}
	case *ssa.Alloc:
		return delegCellParam(fn, t)
	}
	return nil
}

func delegCellParam(fn *ssa.Function, al *ssa.Alloc) *ssa.Parameter {
	var p *ssa.Parameter
	n := 0
	for _, r := range *al.Referrers() {
		if st, ok := r.(*ssa.Store); ok && st.Addr == al {
			n++
			if pp, ok := st.Val.(*ssa.Parameter); ok && pp.Parent() == fn {
				p = pp
			}
		}
	}
	if n == 1 {
		return p
	}
	return nil
}

// classifyDelegate: fn's body is one block that builds closures and makes exactly one static call to a package-level
// function of the library whose result it returns.
func classifyDelegate(fn *ssa.Function) *delegInfo {
	if len(fn.Blocks) != 1 || fn.Parent() != nil || fn.Signature.Recv() != nil {
		return nil
	}
	d := &delegInfo{fn: fn}
	for _, ins := range fn.Blocks[0].Instrs {
		switch t := ins.(type) {
		case *ssa.Alloc, *ssa.Store, *ssa.MakeClosure, *ssa.Return, *ssa.ChangeType, *ssa.UnOp, *ssa.DebugRef, *ssa.MakeInterface:
			if u, ok := ins.(*ssa.UnOp); ok && u.Op.String() != "*" {
				return nil
			}
		case *ssa.Call:
			if d.call != nil {
				return nil
			}
			callee := t.Common().StaticCallee()
			if callee == nil || callee.Parent() != nil || callee.Signature.Recv() != nil {
				return nil
			}
			if callee.Origin() != nil {
				callee = callee.Origin()
			}
			if callee.Pkg == nil || !isRoPkg(callee.Pkg.Pkg.Path()) {
				return nil
			}
			d.call, d.callee = t, callee
		default:
			return nil
		}
	}
	if d.call == nil {
		return nil
	}
	// an observable / observer constructor given closures is an operator in its own right, not a variant of one
	if strings.HasPrefix(d.callee.Name(), "New") {
		for _, a := range d.call.Common().Args {
			switch t := a.(type) {
			case *ssa.MakeClosure:
				return nil
			case *ssa.Function:
				if !isEmptyFunc(t) {
					return nil
				}
			}
		}
	}
	ret, ok := fn.Blocks[0].Instrs[len(fn.Blocks[0].Instrs)-1].(*ssa.Return)
	if !ok || len(ret.Results) != 1 || ret.Results[0] != ssa.Value(d.call) {
		return nil
	}
	return d
}

func isEmptyFunc(f *ssa.Function) bool {
	if len(f.Blocks) != 1 {
		return false
	}
	for _, ins := range f.Blocks[0].Instrs {
		switch t := ins.(type) {
		case *ssa.Return:
			for _, r := range t.Results {
				if _, ok := r.(*ssa.Const); !ok {
					return false
				}
			}
		case *ssa.DebugRef:
		default:
			return false
		}
	}
	return true
}

func (pc *pCtx) d1Delegates(only string) {
	var paths []string
	for p := range pc.kc.w.ByPath {
		if isRoPkg(p) && !strings.Contains(p, "/examples/") && !strings.HasSuffix(p, "/testing") && !strings.Contains(p, "/internal/") {
			paths = append(paths, p)
		}
	}
	sort.Strings(paths)
	for _, p := range paths {
		fns := pc.kc.w.allFuncs(p)
		for _, k := range sortedKeys(fns) {
			fn := fns[k]
			if fn.Blocks == nil || fn.Object() == nil || !fn.Object().Exported() || strings.HasSuffix(pc.kc.w.Prog.Fset.Position(fn.Pos()).Filename, "_test.go") {
				continue
			}
			name := k
			if p != roPath {
				name = strings.TrimPrefix(p, roPath+"/") + "." + k
			}
			if only != "" && !strings.Contains(name, only) {
				continue
			}
			d := classifyDelegate(fn)
			if d == nil {
				continue
			}
			if _, ok := pc.annotated(name, "delegate-custom"); ok {
				continue
			}
			pc.delegateObls(name, d)
		}
	}
}

func (pc *pCtx) delegateObls(name string, d *delegInfo) {
	fn := d.fn
	pos := pc.pos(d.call.Pos())
	calleeName := d.callee.Name()
	props := pc.delegProps(name, calleeName, fn.Name())
	pc.curDelegProps = props
	used := map[*ssa.Parameter]bool{}
	type fwd struct {
		p   *ssa.Parameter
		pos int
	}
	var direct []fwd
	nAd := 0
	shapeOK := true
	shapeNote := ""
	for ai, a := range d.call.Common().Args {
		if p := delegParamOf(fn, a); p != nil {
			used[p] = true
			direct = append(direct, fwd{p, ai})
			continue
		}
		switch t := a.(type) {
		case *ssa.Const:
			continue
		case *ssa.Function: // a closure that captures nothing
			if isEmptyFunc(t) {
				continue
			}
			nAd++
			pc.adapterObls(name, d, t, nil, nAd, used)
			continue
		case *ssa.MakeClosure:
			nAd++
			pc.adapterObls(name, d, t.Fn.(*ssa.Function), t.Bindings, nAd, used)
			continue
		}
		shapeOK = false
		shapeNote = fmt.Sprintf("argument %d of %s is computed (%s), not forwarded", ai+1, calleeName, a.String())
	}
	// a variant delegates to the canonical form of its own operator family (DoWhileWithContext -> DoWhileIWithContext, not WhileIWithContext)
	if pkgFns := pc.kc.w.allFuncs(fn.Pkg.Pkg.Path()); pkgFns != nil {
		stem := delegStem(fn.Name())
		// only the four-variant families (X, XI, XWithContext, XIWithContext) have a canonical form by name
		if _, c1 := pkgFns[stem+"IWithContext"]; c1 && fn.Name() != stem+"IWithContext" {
			ok := delegStem(calleeName) == stem
			pc.add(props, "D1/"+name+"/delegates-to-its-own-family", "a plain / indexed / context-aware variant delegates to the canonical form of the same operator", ok,
				fmt.Sprintf("%s delegates to %s", fn.Name(), calleeName), pos)
		}
	}
	pc.add(props, "D1/"+name+"/arguments-are-forwarded", "a delegating variant passes to "+calleeName+" only its own parameters, adapter lambdas around them and constants", shapeOK, shapeNote, pos)
	// every parameter reaches the canonical form
	var missing []string
	for _, p := range fn.Params {
		if !used[p] && p.Name() != "_" {
			missing = append(missing, p.Name())
		}
	}
	pc.add(props, "D1/"+name+"/every-parameter-is-used", "every parameter of the variant reaches "+calleeName, len(missing) == 0, "unused: "+strings.Join(missing, ", "), pos)
	// parameters of identical type keep their relative order
	orderOK := true
	note := ""
	for i := 0; i < len(direct); i++ {
		for j := i + 1; j < len(direct); j++ {
			a, b := direct[i], direct[j]
			if types.Identical(a.p.Type(), b.p.Type()) && delegParamIndex(fn, a.p) > delegParamIndex(fn, b.p) {
				orderOK = false
				note = fmt.Sprintf("%s and %s are swapped", a.p.Name(), b.p.Name())
			}
		}
	}
	pc.add(props, "D1/"+name+"/same-typed-parameters-keep-their-order", "parameters of the same type are forwarded to "+calleeName+" in the order they were received", orderOK, note, pos)
}

// delegStem strips the variant suffixes of an operator name: MapIWithContext, MapWithContext, MapI -> Map.
func delegStem(n string) string {
	for _, suf := range []string{"IWithContext", "WithContext"} {
		if strings.HasSuffix(n, suf) && len(n) > len(suf) {
			return strings.TrimSuffix(n, suf)
		}
	}
	if strings.HasSuffix(n, "I") && len(n) > 1 {
		return strings.TrimSuffix(n, "I")
	}
	return n
}

func delegParamIndex(fn *ssa.Function, p *ssa.Parameter) int {
	for i, q := range fn.Params {
		if q == p {
			return i
		}
	}
	return -1
}

// adapterObls: the adapter lambda `ad` (bindings: cells of parameters of the variant) is a pure relay to one user function.
func (pc *pCtx) adapterObls(name string, d *delegInfo, ad *ssa.Function, bindings []ssa.Value, k int, used map[*ssa.Parameter]bool) {
	props := pc.curDelegProps
	base := fmt.Sprintf("D1/%s/adapter#%d", name, k)
	pos := pc.pos(ad.Pos())
	// which parameter of the variant each free variable stands for
	fvParam := map[*ssa.FreeVar]*ssa.Parameter{}
	for i, b := range bindings {
		if p := delegParamOf(d.fn, b); p != nil && i < len(ad.FreeVars) {
			fvParam[ad.FreeVars[i]] = p
			used[p] = true
		}
	}
	fail := func(kind, clause, note string) {
		pc.add(props, base+"/"+kind, clause, false, note, pos)
	}
	const (
		cRelay = "the adapter calls the user function exactly once, with nothing computed before or after"
		cArgs  = "the user function receives the adapter's own parameters, in order"
		cRes   = "the adapter returns exactly the results of the user function, in order (the context parameter passes through when the user function returns none)"
	)
	if len(ad.Blocks) != 1 {
		fail("is-a-relay", cRelay, "the adapter branches")
		return
	}
	var call *ssa.Call
	var ret *ssa.Return
	okShape := true
	shapeNote := ""
	for _, ins := range ad.Blocks[0].Instrs {
		switch t := ins.(type) {
		case *ssa.UnOp:
			if t.Op.String() != "*" {
				okShape, shapeNote = false, "computes "+t.String()
			}
		case *ssa.Extract, *ssa.DebugRef, *ssa.ChangeType, *ssa.MakeInterface:
		case *ssa.Call:
			if call != nil {
				okShape, shapeNote = false, "more than one call"
			}
			call = t
		case *ssa.Return:
			ret = t
		default:
			okShape, shapeNote = false, "computes "+ins.String()
		}
	}
	if call == nil {
		// a constant function of its arguments (e.g. MapTo-like adapters) is not a relay: leave it to its own contract
		if okShape && ret != nil {
			pc.add(props, base+"/is-a-relay", cRelay, true, "constant adapter", pos)
			return
		}
		fail("is-a-relay", cRelay, shapeNote)
		return
	}
	// the callee must be a user function parameter of the variant
	var callee *ssa.Parameter
	cv := call.Common().Value
	if u, ok := cv.(*ssa.UnOp); ok {
		if fv, ok := u.X.(*ssa.FreeVar); ok {
			callee = fvParam[fv]
		}
	}
	if fv, ok := cv.(*ssa.FreeVar); ok {
		callee = fvParam[fv]
	}
	if callee == nil || call.Common().IsInvoke() {
		okShape, shapeNote = false, "the adapter calls "+cv.String()+", which is not a function parameter of the variant"
	}
	pc.add(props, base+"/is-a-relay", cRelay, okShape, shapeNote, pos)
	if !okShape {
		return
	}
	// arguments: the adapter's own parameters, strictly increasing positions
	last := -1
	argsOK := true
	note := ""
	for i, a := range call.Common().Args {
		p, ok := a.(*ssa.Parameter)
		if !ok || p.Parent() != ad {
			argsOK, note = false, fmt.Sprintf("argument %d is %s", i+1, a.String())
			break
		}
		idx := delegParamIndex(ad, p)
		if idx <= last {
			argsOK, note = false, fmt.Sprintf("argument %d (%s) is out of order", i+1, p.Name())
			break
		}
		// a parameter of the same type that was skipped means the wrong one was picked (e.g. agg/item of one type)
		for j := last + 1; j < idx; j++ {
			if types.Identical(ad.Params[j].Type(), p.Type()) {
				argsOK, note = false, fmt.Sprintf("argument %d is %s although %s of the same type comes first", i+1, p.Name(), ad.Params[j].Name())
			}
		}
		last = idx
	}
	pc.add(props, base+"/arguments-in-order", cArgs, argsOK, note, pos)
	// results
	resOK := true
	rnote := ""
	nres := call.Common().Signature().Results().Len()
	next := 0
	if ret == nil {
		resOK, rnote = false, "no return"
	} else {
		for i, r := range ret.Results {
			switch t := r.(type) {
			case *ssa.Extract:
				if t.Tuple != ssa.Value(call) || t.Index != next {
					resOK, rnote = false, fmt.Sprintf("result %d is not result %d of the user function", i+1, next+1)
				}
				next++
			case *ssa.Call:
				if t != call || nres != 1 || next != 0 {
					resOK, rnote = false, fmt.Sprintf("result %d is not the result of the user function", i+1)
				}
				next++
			case *ssa.Parameter:
				if !isContextType(t.Type()) || t.Parent() != ad {
					resOK, rnote = false, fmt.Sprintf("result %d is the parameter %s", i+1, t.Name())
				}
			default:
				resOK, rnote = false, fmt.Sprintf("result %d is %s", i+1, r.String())
			}
		}
		if resOK && next != nres {
			resOK, rnote = false, "a result of the user function is dropped"
		}
	}
	pc.add(append(append([]string{}, props...), "C09"), base+"/results-faithful", cRes, resOK, rnote, pos)
}

// delegProps: a variant carries the properties its canonical operator's contract decides (C04 always): a wrong delegation
// breaks them for the variant.
func (pc *pCtx) delegProps(name, callee, self string) []string {
	set := map[string]bool{"C04": true}
	prefix := ""
	if i := strings.LastIndex(name, "."); i >= 0 {
		prefix = name[:i+1]
	}
	for _, n := range []string{prefix + callee, prefix + delegStem(self) + "IWithContext"} {
		for _, p := range pc.opProps[n] {
			set[p] = true
		}
	}
	return sortedStrs(set)
}
