package main

import (
	"fmt"
	"go/types"
	"sort"
	"strings"

	"golang.org/x/tools/go/ssa"
)

// ---------------------------------------------------------------------------
// Symbolic values
// ---------------------------------------------------------------------------

type Kind int

const (
	KInt Kind = iota
	KBool
	KU       // uninterpreted universe: interfaces, funcs, strings, type-parameter values, pointers we do not track
	KLoc     // pointer to a tracked heap location (key prefix)
	KSlice   // slice header over a heap array
	KStruct  // struct value, expanded by field
	KTuple   // multi-value result
	KClosure // closure whose body is known on this path
	KBound   // method value x.M
	KFn      // static function value
	KMap     // map value (reference to heap map)
)

type SVal struct {
	K      Kind
	T      string // SMT term for KInt, KBool, KU
	Loc    string // heap key for KLoc / heap array key for KSlice / heap map key for KMap
	Elems  []SVal
	Fn     *ssa.Function
	Binds  []SVal
	Recv   *SVal
	Method string
	Off    string // KSlice: offset into heap array
	Len    string
	Cap    string
	Snap   string // KSlice: array term at the time the value was recorded in an event
	Src    string // provenance: where the value was loaded from (heap key, parameter or free variable name)
	NilC   string // KLoc: Bool term "this pointer is nil" for a pointer read out of state the function does not control ("" = known non-nil)
	GoT    types.Type
}

func (v SVal) String() string {
	switch v.K {
	case KInt, KBool, KU:
		return v.T
	case KLoc:
		return "&" + v.Loc
	case KSlice:
		return fmt.Sprintf("slice(%s,off=%s,len=%s)", v.Loc, v.Off, v.Len)
	case KStruct, KTuple:
		var ps []string
		for _, e := range v.Elems {
			ps = append(ps, e.String())
		}
		return "{" + strings.Join(ps, ", ") + "}"
	case KClosure:
		return "closure:" + funcKey(v.Fn)
	case KBound:
		return "bound:" + v.Recv.String() + "." + v.Method
	case KFn:
		return "fn:" + v.Fn.Name()
	case KMap:
		return "map:" + v.Loc
	}
	return "?"
}

func mkInt(t string) SVal  { return SVal{K: KInt, T: t} }
func mkBool(t string) SVal { return SVal{K: KBool, T: t} }
func mkU(t string) SVal    { return SVal{K: KU, T: t} }

// sortOf maps a Go type to the SMT sort of its scalar representation.
func sortOf(t types.Type) string {
	if t == nil {
		return "U"
	}
	switch u := t.Underlying().(type) {
	case *types.Basic:
		info := u.Info()
		if info&types.IsBoolean != 0 {
			return "Bool"
		}
		if info&types.IsInteger != 0 {
			return "Int"
		}
		return "U"
	}
	return "U"
}

func isStruct(t types.Type) (*types.Struct, bool) {
	if t == nil {
		return nil, false
	}
	if _, ok := t.(*types.TypeParam); ok {
		return nil, false
	}
	s, ok := t.Underlying().(*types.Struct)
	return s, ok
}

func isSlice(t types.Type) (*types.Slice, bool) {
	if t == nil {
		return nil, false
	}
	if _, ok := t.(*types.TypeParam); ok {
		return nil, false
	}
	s, ok := t.Underlying().(*types.Slice)
	return s, ok
}

func isMap(t types.Type) (*types.Map, bool) {
	if t == nil {
		return nil, false
	}
	if _, ok := t.(*types.TypeParam); ok {
		return nil, false
	}
	s, ok := t.Underlying().(*types.Map)
	return s, ok
}

func typeShort(t types.Type) string {
	s := types.TypeString(t, func(p *types.Package) string { return "" })
	r := strings.NewReplacer("[", "_", "]", "_", "*", "p", ".", "_", ",", "_", " ", "", "(", "_", ")", "_", "{", "_", "}", "_", "/", "_", ";", "_")
	return r.Replace(s)
}

func sanitize(s string) string {
	var b strings.Builder
	for _, c := range s {
		switch {
		case c >= 'a' && c <= 'z', c >= 'A' && c <= 'Z', c >= '0' && c <= '9', c == '_', c == '.', c == '!', c == '@', c == '#', c == '$':
			b.WriteRune(c)
		default:
			b.WriteRune('_')
		}
	}
	return b.String()
}

// ---------------------------------------------------------------------------
// SMT declarations shared by all obligations of one verification unit
// ---------------------------------------------------------------------------

type Decls struct {
	consts map[string]string   // name -> sort
	funs   map[string][]string // name -> arg sorts..., result sort last
	order  []string
	n      int
}

func newDecls() *Decls {
	return &Decls{consts: map[string]string{}, funs: map[string][]string{}}
}

func (d *Decls) constOf(name, sort string) string {
	name = sanitize(name)
	if s, ok := d.consts[name]; ok {
		if s != sort {
			// same name with another sort: disambiguate
			return d.constOf(name+"_"+strings.ToLower(strings.Trim(sort, "()")[:1]), sort)
		}
		return name
	}
	d.consts[name] = sort
	d.order = append(d.order, "c:"+name)
	return name
}

func (d *Decls) fresh(prefix, sort string) string {
	d.n++
	return d.constOf(fmt.Sprintf("%s!%d", prefix, d.n), sort)
}

func (d *Decls) fun(name string, args []string, res string) string {
	name = sanitize(name)
	sig := append(append([]string{}, args...), res)
	if old, ok := d.funs[name]; ok {
		if strings.Join(old, ",") != strings.Join(sig, ",") {
			return d.fun(name+"_"+fmt.Sprint(len(args))+strings.ToLower(res[:1]), args, res)
		}
		return name
	}
	d.funs[name] = sig
	d.order = append(d.order, "f:"+name)
	return name
}

func (d *Decls) app(name string, args []string, argSorts []string, res string) string {
	name = d.fun(name, argSorts, res)
	if len(args) == 0 {
		return smtName(name)
	}
	return "(" + smtName(name) + " " + strings.Join(args, " ") + ")"
}

func (d *Decls) smt() string {
	var b strings.Builder
	b.WriteString("(declare-sort U 0)\n(declare-fun nil () U)\n")
	for _, o := range d.order {
		name := o[2:]
		if o[0] == 'c' {
			fmt.Fprintf(&b, "(declare-fun %s () %s)\n", smtName(name), d.consts[name])
		} else {
			sig := d.funs[name]
			fmt.Fprintf(&b, "(declare-fun %s (%s) %s)\n", smtName(name), strings.Join(sig[:len(sig)-1], " "), sig[len(sig)-1])
		}
	}
	return b.String()
}

func smtName(n string) string {
	return "|" + n + "|"
}

// q quotes a declared symbol for use in terms.
func q(n string) string { return smtName(n) }

func and(xs ...string) string {
	var ys []string
	for _, x := range xs {
		if x == "true" || x == "" {
			continue
		}
		if x == "false" {
			return "false"
		}
		ys = append(ys, x)
	}
	if len(ys) == 0 {
		return "true"
	}
	if len(ys) == 1 {
		return ys[0]
	}
	return "(and " + strings.Join(ys, " ") + ")"
}

func or(xs ...string) string {
	var ys []string
	for _, x := range xs {
		if x == "false" || x == "" {
			continue
		}
		if x == "true" {
			return "true"
		}
		ys = append(ys, x)
	}
	if len(ys) == 0 {
		return "false"
	}
	if len(ys) == 1 {
		return ys[0]
	}
	return "(or " + strings.Join(ys, " ") + ")"
}

func not(x string) string {
	switch x {
	case "true":
		return "false"
	case "false":
		return "true"
	}
	if strings.HasPrefix(x, "(not ") && strings.HasSuffix(x, ")") && balanced(x[5:len(x)-1]) {
		return x[5 : len(x)-1]
	}
	return "(not " + x + ")"
}

func balanced(s string) bool {
	d := 0
	for i, c := range s {
		if c == '(' {
			d++
		} else if c == ')' {
			d--
			if d == 0 && i != len(s)-1 {
				return false
			}
		}
		if d < 0 {
			return false
		}
	}
	return d == 0 && (strings.HasPrefix(s, "(") || !strings.Contains(s, " "))
}

func imp(a, b string) string {
	if a == "true" {
		return b
	}
	if a == "false" || b == "true" {
		return "true"
	}
	return "(=> " + a + " " + b + ")"
}

func eq(a, b string) string {
	if a == b {
		return "true"
	}
	return "(= " + a + " " + b + ")"
}

func ite(c, a, b string) string {
	if c == "true" {
		return a
	}
	if c == "false" {
		return b
	}
	if a == b {
		return a
	}
	return "(ite " + c + " " + a + " " + b + ")"
}

func intLit(n int64) string {
	if n < 0 {
		return fmt.Sprintf("(- %d)", -n)
	}
	return fmt.Sprint(n)
}

func sortedStrs(m map[string]bool) []string {
	var ks []string
	for k, v := range m {
		if v {
			ks = append(ks, k)
		}
	}
	sort.Strings(ks)
	return ks
}
