package main

import (
	"fmt"
	"regexp"
	"go/constant"
	"go/token"
	"go/types"
	"strings"

	"golang.org/x/tools/go/ssa"
)

// ---------------------------------------------------------------------------
// Path state
// ---------------------------------------------------------------------------

type Event struct {
	Name string // e.g. destination.NextWithContext, hook:OnDroppedNotification, call:execFinalizer, callfn:project
	Args []SVal
	Res  []SVal
	Held []string
	Pos  token.Pos
	Ctx  string // emission context label ("" = the function itself, "go", "timer")
	Loop string // non-empty: summary event of a loop
	Cells map[string]SVal // downstream calls: the operator's cells as they are when the call is made (atevent(p, cell))
}

type Obl struct {
	Name   string
	Goal   string
	PC     []string
	Note   string
	Pos    token.Pos
	Struct bool
}

type ExitKind int

const (
	ExitReturn ExitKind = iota
	ExitPanic
	ExitStop // path cut (loop back edge reached, unsupported, assume false)
)

type Exit struct {
	Kind    ExitKind
	Results []SVal
	Panic   SVal
}

type Frame struct {
	Fn     *ssa.Function
	Vals   map[ssa.Value]SVal
	Defers []*ssa.Defer
	// loop bookkeeping: header block index -> event count at loop entry
	LoopMark map[int]int
	Depth    int
}

func (f *Frame) clone() *Frame {
	g := &Frame{Fn: f.Fn, Vals: make(map[ssa.Value]SVal, len(f.Vals)), Depth: f.Depth}
	for k, v := range f.Vals {
		g.Vals[k] = v
	}
	g.Defers = append([]*ssa.Defer{}, f.Defers...)
	g.LoopMark = map[int]int{}
	for k, v := range f.LoopMark {
		g.LoopMark[k] = v
	}
	return g
}

type State struct {
	PC      []string
	Heap    map[string]SVal
	Zero    map[string]bool // bases whose unset contents are Go zero values (fresh allocations)
	Init    map[string]SVal // initial (pre-state) symbols created lazily, by key
	Events  []Event
	Held    map[string]bool
	Ghost   map[string]string
	Named   map[string]string // path-local named values: loaded(status), cas_ok(status), ...
	NamedV  map[string]SVal   // path-local named structured values: atlock(finalizers), ranged, it, phi names
	InLoop  []int             // header block indexes of the loops whose body is being executed
	Obls    []Obl
	Frames  []*Frame
	Written map[string]bool // heap keys written on this path
	Ctx     string
	Err     string
	Steps   int
}

func (s *State) clone() *State {
	t := &State{
		PC:      append([]string{}, s.PC...),
		Heap:    make(map[string]SVal, len(s.Heap)),
		Zero:    make(map[string]bool, len(s.Zero)),
		Init:    s.Init, // shared on purpose: initial symbols are per unit, identical across paths
		Events:  append([]Event{}, s.Events...),
		Held:    make(map[string]bool, len(s.Held)),
		Ghost:   make(map[string]string, len(s.Ghost)),
		Named:   make(map[string]string, len(s.Named)),
		NamedV:  make(map[string]SVal, len(s.NamedV)),
		InLoop:  append([]int{}, s.InLoop...),
		Obls:    append([]Obl{}, s.Obls...),
		Written: make(map[string]bool, len(s.Written)),
		Ctx:     s.Ctx,
		Err:     s.Err,
		Steps:   s.Steps,
	}
	for k, v := range s.Heap {
		t.Heap[k] = v
	}
	for k, v := range s.Zero {
		t.Zero[k] = v
	}
	for k, v := range s.Held {
		t.Held[k] = v
	}
	for k, v := range s.Ghost {
		t.Ghost[k] = v
	}
	for k, v := range s.Named {
		t.Named[k] = v
	}
	for k, v := range s.NamedV {
		t.NamedV[k] = v
	}
	for k, v := range s.Written {
		t.Written[k] = v
	}
	for _, f := range s.Frames {
		t.Frames = append(t.Frames, f.clone())
	}
	return t
}

func (s *State) top() *Frame { return s.Frames[len(s.Frames)-1] }

func (s *State) assume(c string) {
	if c != "true" && c != "" {
		s.PC = append(s.PC, c)
	}
}

func (s *State) heldList() []string { return sortedStrs(s.Held) }

// ---------------------------------------------------------------------------
// Executor
// ---------------------------------------------------------------------------

type LoopSpec struct {
	NoExit    bool     // the loop must run all its iterations: no return / panic / break from its body
	Invariant []string // contract expressions
	IterEmits []string // event patterns emitted by one iteration (nil = not constrained)
	IterEnsures []string // properties of the events of one iteration (evaluated over that iteration's events only)
	IterAdvances []string // how one iteration moves the loop variables: evaluated with their new values, atiter(v) is the value the iteration started with
	Exit      []string // what holds when the loop condition fails (proved from the invariant and the negated condition): pins the number of iterations
	Name      string
	EvOrd     int  // ordinal used in the summary event's name when the contract was re-bound to a moved loop (0 = the loop's own; else ordinal+1)
}

type Hooks struct {
	// OnEvent is called after an event has been appended (obligations, ghost updates).
	OnEvent func(x *Exec, st *State, ev *Event)
	// Lock / Unlock of a lock identified by its heap key or provenance name.
	OnLock   func(x *Exec, st *State, lock string, pos token.Pos)
	OnUnlock func(x *Exec, st *State, lock string, pos token.Pos)
	// FieldAccess is called for every load/store of a heap key that lives in a struct reached through a pointer.
	FieldAccess func(x *Exec, st *State, key string, write bool, val *SVal, pos token.Pos)
	// AtomicRely returns the rely formula over (old,new) terms for the atomic field key, or "" when not declared.
	AtomicRely func(key, old, new string) string
	// AtomicWrite is called for every successful atomic write old->new.
	AtomicWrite func(x *Exec, st *State, key, old, new string, pos token.Pos)
	// Callee returns a contract to use for a static callee instead of executing or abstracting it.
	Callee func(fn *ssa.Function) *CalleeSpec
	// Loop returns the loop contract for the n-th loop (source order) of fn.
	Loop func(fn *ssa.Function, ordinal int) *LoopSpec
	// EvalExpr compiles a contract expression in the current state (used by loop invariants).
	EvalExpr func(x *Exec, st *State, expr string) (string, error)
	// MatchIter checks the events of one loop iteration against the loop's IterEmits.
	MatchIter func(x *Exec, st *State, ls *LoopSpec, evs []Event) string
	// IterEnsures evaluates the loop's per-iteration properties over the events of one iteration.
	IterEnsures func(x *Exec, st *State, ls *LoopSpec, evs []Event) []string
}

// CalleeSpec: how to treat a static callee.
type CalleeSpec struct {
	Inline bool   // execute the body in place
	Unsupported string // non-empty: the callee cannot be handled (reason); the path is reported as outside the verified subset
	Pure   string // non-empty: uninterpreted function symbol for its results
	Event  string // non-empty: record as an event with this name (fresh results)
	// MayPanic: fork a panic path
	MayPanic bool
	// Modular: the callee's own contract (its func block's ensures clauses) is assumed about the fresh results
	Modular *Block
	// HavocRecv: the callee may change these heap keys (prefix match)
	Havoc []string
	// Post: assumptions about results, as contract expressions over result/args (compiled by hook)
	Post func(x *Exec, st *State, args []SVal, res []SVal)
}

type Exec struct {
	W          *World
	D          *Decls
	H          Hooks
	RecvName   string
	PanicForks bool // fork a panicking outcome at calls of user-supplied functions
	MaxPaths   int
	Paths      int
	MaxDepth   int
	Trace      bool
	loops      map[*ssa.Function]map[int]int // header block index -> ordinal
	DryRun     bool
	boxed      map[string]bool
	initFacts  map[string][]string // typing facts of pre-state symbols, re-assumed on every path that meets them
	NamedCells bool // heap-allocated named locals get their source name as heap key (closure cells)
	unsupported []string
}

type Cont func(st *State, ex Exit)

func newExec(w *World, d *Decls) *Exec {
	return &Exec{W: w, D: d, MaxPaths: 400, MaxDepth: 8, loops: map[*ssa.Function]map[int]int{}}
}

func (x *Exec) unsupp(st *State, format string, args ...interface{}) {
	msg := fmt.Sprintf(format, args...)
	if st.Err == "" {
		st.Err = msg
	}
	x.unsupported = append(x.unsupported, msg)
}

func (x *Exec) pos(p token.Pos) string {
	if !p.IsValid() {
		return ""
	}
	ps := x.W.Prog.Fset.Position(p)
	return fmt.Sprintf("%s:%d", shortFile(ps.Filename), ps.Line)
}

func shortFile(f string) string {
	return strings.TrimPrefix(f, "/repo/")
}

func (x *Exec) obl(st *State, name, goal, note string, pos token.Pos) {
	if x.DryRun {
		return
	}
	st.Obls = append(st.Obls, Obl{Name: name, Goal: goal, PC: append([]string{}, st.PC...), Note: note, Pos: pos, Struct: goal == "true" || goal == "false"})
}

// ---------------------------------------------------------------------------
// Heap
// ---------------------------------------------------------------------------

func keyBase(key string) string {
	if i := strings.IndexAny(key, ".["); i >= 0 {
		return key[:i]
	}
	return key
}

func (x *Exec) zeroValue(t types.Type) SVal {
	if st, ok := isStruct(t); ok {
		v := SVal{K: KStruct, GoT: t}
		for i := 0; i < st.NumFields(); i++ {
			v.Elems = append(v.Elems, x.zeroValue(st.Field(i).Type()))
		}
		return v
	}
	if _, ok := isSlice(t); ok {
		return SVal{K: KSlice, Loc: "arr!nil", Off: "0", Len: "0", Cap: "0", GoT: t}
	}
	switch sortOf(t) {
	case "Int":
		return SVal{K: KInt, T: "0", GoT: t}
	case "Bool":
		return SVal{K: KBool, T: "false", GoT: t}
	}
	if b, ok := t.Underlying().(*types.Basic); ok && b.Info()&types.IsString != 0 {
		return SVal{K: KU, T: q(x.D.constOf("str!empty", "U")), GoT: t}
	}
	return SVal{K: KU, T: "nil", GoT: t}
}

// symbolic creates a fresh symbolic value of Go type t named after name.
func (x *Exec) symbolic(st *State, name string, t types.Type) SVal {
	if s, ok := isStruct(t); ok {
		v := SVal{K: KStruct, GoT: t}
		for i := 0; i < s.NumFields(); i++ {
			v.Elems = append(v.Elems, x.symbolic(st, name+"."+s.Field(i).Name(), s.Field(i).Type()))
		}
		return v
	}
	if sl, ok := isSlice(t); ok {
		arr := "arr@" + name
		ln := q(x.D.constOf(name+"#len", "Int"))
		cp := q(x.D.constOf(name+"#cap", "Int"))
		if st != nil {
			st.assume("(>= " + ln + " 0)")
			st.assume("(>= " + cp + " " + ln + ")")
			if _, ok := st.Heap[arr]; !ok {
				st.Heap[arr] = SVal{K: KU, T: q(x.D.constOf(arr, "(Array Int "+sortOf(sl.Elem())+")"))}
				if st.Init != nil {
					st.Init[arr] = st.Heap[arr]
				}
			}
		}
		return SVal{K: KSlice, Loc: arr, Off: "0", Len: ln, Cap: cp, GoT: t, Src: name}
	}
	if _, ok := isMap(t); ok {
		return SVal{K: KMap, Loc: "map@" + name, GoT: t, Src: name}
	}
	if pt, ok := t.Underlying().(*types.Pointer); ok {
		if _, isSt := pt.Elem().Underlying().(*types.Struct); isSt && !isOpaqueStruct(pt.Elem()) {
			// a pointer to a struct we track: the object is named after the variable holding the pointer
			return SVal{K: KLoc, Loc: name, GoT: t, Src: name}
		}
		if !isOpaqueStruct(pt.Elem()) {
			if _, isPtr := pt.Elem().Underlying().(*types.Pointer); !isPtr {
				// a pointer to a scalar, slice or map cell (`completed *bool`, `values *[]*T` handed to a helper): the cell it
				// points to is the heap key <name>^ (aliasing assumption: distinct pointer variables point to distinct cells)
				return SVal{K: KLoc, Loc: name + "^", GoT: t, Src: name}
			}
		}
	}
	switch sortOf(t) {
	case "Int":
		c := q(x.D.constOf(name, "Int"))
		if st != nil {
			if b, ok := t.Underlying().(*types.Basic); ok && b.Info()&types.IsUnsigned != 0 {
				st.assume("(>= " + c + " 0)")
			}
		}
		return SVal{K: KInt, T: c, GoT: t, Src: name}
	case "Bool":
		return SVal{K: KBool, T: q(x.D.constOf(name, "Bool")), GoT: t, Src: name}
	}
	return SVal{K: KU, T: q(x.D.constOf(name, "U")), GoT: t, Src: name}
}

func (x *Exec) load(st *State, key string, t types.Type, pos token.Pos) SVal {
	if s, ok := isStruct(t); ok && !isOpaqueStruct(t) {
		v := SVal{K: KStruct, GoT: t}
		for i := 0; i < s.NumFields(); i++ {
			v.Elems = append(v.Elems, x.load(st, key+"."+s.Field(i).Name(), s.Field(i).Type(), pos))
		}
		return v
	}
	if v, ok := st.Heap[key]; ok {
		if v.Src == "" {
			v.Src = key
		}
		return v
	}
	if st.Named["unknown:"+keyBase(key)] == "true" {
		// havocked before it was ever read (by a loop or by callbacks of a nested subscription)
		v := x.symbolic(st, fmt.Sprintf("%s@unknown.%d", key, len(st.Events)), t)
		v.Src = key
		v = x.maybeNil(v, fmt.Sprintf("%s@unknown.%d", key, len(st.Events)), t)
		st.Heap[key] = v
		return v
	}
	if st.Zero[keyBase(key)] {
		v := x.zeroValue(t)
		st.Heap[key] = v
		return v
	}
	v := x.initial(st, key, t)
	st.Heap[key] = v
	return v
}

// initial returns the pre-state symbol of a heap key.
func (x *Exec) initial(st *State, key string, t types.Type) SVal {
	if v, ok := st.Init[key]; ok {
		// the pre-state symbol was created on another path: its typing facts (lengths, unsignedness) hold here too
		for _, a := range x.initFacts[key] {
			st.assume(a)
		}
		return v
	}
	n := len(st.PC)
	v := x.symbolic(st, key, t)
	v.Src = key
	v = x.maybeNil(v, key, t)
	st.Init[key] = v
	if x.initFacts == nil {
		x.initFacts = map[string][]string{}
	}
	x.initFacts[key] = append([]string{}, st.PC[n:]...)
	return v
}

func (x *Exec) store(st *State, key string, v SVal) {
	if v.K == KStruct {
		s, _ := isStruct(v.GoT)
		for i, e := range v.Elems {
			name := fmt.Sprint(i)
			if s != nil && i < s.NumFields() {
				name = s.Field(i).Name()
			}
			x.store(st, key+"."+name, e)
		}
		return
	}
	st.Heap[key] = v
	st.Written[key] = true
}

func isOpaqueStruct(t types.Type) bool {
	if n, ok := t.(*types.Named); ok {
		if n.Obj().Pkg() != nil {
			p := n.Obj().Pkg().Path()
			if p == "sync" || p == "sync/atomic" || p == "time" {
				return true
			}
		}
	}
	return false
}

// ---------------------------------------------------------------------------
// Terms
// ---------------------------------------------------------------------------

// termOf converts a value to a single SMT term of the sort of its Go type (boxing composites).
func (x *Exec) termOf(st *State, v SVal) string {
	switch v.K {
	case KInt, KBool, KU:
		return v.T
	case KLoc:
		if v.NilC != "" {
			return "(ite " + v.NilC + " nil " + q(x.D.constOf("ptr!"+v.Loc, "U")) + ")"
		}
		return q(x.D.constOf("ptr!"+v.Loc, "U"))
	case KStruct, KTuple:
		var args, sorts []string
		for _, e := range v.Elems {
			args = append(args, x.termOf(st, e))
			sorts = append(sorts, x.sortOfVal(e))
		}
		name := "box"
		if v.GoT != nil {
			name = "box!" + typeShort(v.GoT)
		}
		u := x.D.app(name, args, sorts, "U")
		// ground projection facts: proj_i(box(f0..fn)) == f_i
		if st != nil && v.K == KStruct && v.GoT != nil {
			if s, ok := isStruct(v.GoT); ok {
				for i := range v.Elems {
					if i < s.NumFields() {
						p := x.D.app("proj!"+typeShort(v.GoT)+"!"+s.Field(i).Name(), []string{u}, []string{"U"}, sorts[i])
						st.assume(eq(p, args[i]))
					}
				}
			}
		}
		return u
	case KSlice:
		arr := v.Snap
		if arr == "" && st != nil {
			arr = x.arrTerm(st, v)
		}
		if arr == "" {
			arr = q(x.D.constOf(v.Loc, "(Array Int U)"))
		}
		es := "U"
		if sl, ok := isSlice(v.GoT); ok {
			es = sortOf(sl.Elem())
		}
		if st != nil && st.Named["es:"+v.Loc] != "" {
			es = st.Named["es:"+v.Loc] // the element sort the header was unboxed with (a ~[]byte type parameter)
		}
		return x.D.app("boxslice!"+es, []string{arr, v.Off, v.Len}, []string{"(Array Int " + es + ")", "Int", "Int"}, "U")
	case KClosure:
		return q(x.D.constOf("closure!"+funcKey(v.Fn), "U"))
	case KFn:
		return q(x.D.constOf("fn!"+v.Fn.String(), "U"))
	case KBound:
		return x.D.app("bound!"+v.Method, []string{x.termOf(st, *v.Recv)}, []string{"U"}, "U")
	case KMap:
		return q(x.D.constOf("mapref!"+v.Loc, "U"))
	}
	return "nil"
}

func (x *Exec) sortOfVal(v SVal) string {
	switch v.K {
	case KInt:
		return "Int"
	case KBool:
		return "Bool"
	}
	return "U"
}

func (x *Exec) arrTerm(st *State, v SVal) string {
	if a, ok := st.Heap[v.Loc]; ok {
		return a.T
	}
	es := "U"
	if sl, ok := isSlice(v.GoT); ok {
		es = sortOf(sl.Elem())
	}
	if v.Loc == "arr!nil" {
		return x.constArr(es)
	}
	t := q(x.D.constOf(v.Loc, "(Array Int "+es+")"))
	st.Heap[v.Loc] = SVal{K: KU, T: t}
	return t
}

func (x *Exec) constArr(es string) string {
	z := "nil"
	switch es {
	case "Int":
		z = "0"
	case "Bool":
		z = "false"
	}
	return "((as const (Array Int " + es + ")) " + z + ")"
}

// valEq builds the equality of two values of the same Go type.
func (x *Exec) valEq(st *State, a, b SVal) string {
	if (a.K == KStruct || a.K == KTuple) && a.K == b.K && len(a.Elems) == len(b.Elems) {
		var cs []string
		for i := range a.Elems {
			cs = append(cs, x.valEq(st, a.Elems[i], b.Elems[i]))
		}
		return and(cs...)
	}
	if a.K == KSlice && b.K == KSlice {
		// identity of slice headers
		return and(boolLit(a.Loc == b.Loc), eq(a.Off, b.Off), eq(a.Len, b.Len))
	}
	if a.K == KLoc && b.K == KLoc {
		return boolLit(a.Loc == b.Loc)
	}
	if a.K == KClosure && b.K == KClosure {
		return boolLit(a.Fn == b.Fn)
	}
	if a.K == KBound && b.K == KBound {
		return and(boolLit(a.Method == b.Method), x.valEq(st, *a.Recv, *b.Recv))
	}
	if a.K == KLoc && a.NilC != "" && b.K == KU && b.T == "nil" {
		return a.NilC
	}
	if b.K == KLoc && b.NilC != "" && a.K == KU && a.T == "nil" {
		return b.NilC
	}
	if (a.K == KClosure || a.K == KBound || a.K == KFn || a.K == KLoc) && b.K == KU && b.T == "nil" {
		return "false"
	}
	if (b.K == KClosure || b.K == KBound || b.K == KFn || b.K == KLoc) && a.K == KU && a.T == "nil" {
		return "false"
	}
	// a freshly allocated object is different from every value that existed before
	if a.K == KLoc && b.K == KU && st != nil && st.Zero[keyBase(a.Loc)] {
		return "false"
	}
	if b.K == KLoc && a.K == KU && st != nil && st.Zero[keyBase(b.Loc)] {
		return "false"
	}
	if a.K == KSlice && b.K == KU && b.T == "nil" {
		return eq(a.Len, "0") // nil and empty slices are identified (stated abstraction)
	}
	if b.K == KSlice && a.K == KU && a.T == "nil" {
		return eq(b.Len, "0")
	}
	ta, tb := x.termOf(st, a), x.termOf(st, b)
	sa, sb := x.sortOfVal(a), x.sortOfVal(b)
	if sa != sb {
		// an integer / boolean compared with its boxed (interface) form
		box := func(t, s string) string {
			if s == "Int" {
				return x.D.app("box!int", []string{t}, []string{"Int"}, "U")
			}
			if s == "Bool" {
				return x.D.app("box!bool", []string{t}, []string{"Bool"}, "U")
			}
			return t
		}
		if sa == "U" && sb != "U" {
			return eq(ta, box(tb, sb))
		}
		if sb == "U" && sa != "U" {
			return eq(box(ta, sa), tb)
		}
		return "false"
	}
	return eq(ta, tb)
}

func boolLit(b bool) string {
	if b {
		return "true"
	}
	return "false"
}

// ---------------------------------------------------------------------------
// Running a function
// ---------------------------------------------------------------------------

// run executes fn with the given arguments and free-variable bindings; k is called once per path.
func (x *Exec) run(st *State, fn *ssa.Function, args []SVal, binds []SVal, k Cont) {
	if fn.Blocks == nil {
		x.unsupp(st, "no body for %s", fn.String())
		k(st, Exit{Kind: ExitStop})
		return
	}
	if len(st.Frames) >= x.MaxDepth {
		x.unsupp(st, "inline depth exceeded at %s", funcKey(fn))
		k(st, Exit{Kind: ExitStop})
		return
	}
	fr := &Frame{Fn: fn, Vals: map[ssa.Value]SVal{}, LoopMark: map[int]int{}, Depth: len(st.Frames)}
	for i, p := range fn.Params {
		if i < len(args) {
			fr.Vals[p] = args[i]
		}
	}
	for i, fv := range fn.FreeVars {
		if i < len(binds) {
			fr.Vals[fv] = binds[i]
		}
	}
	st.Frames = append(st.Frames, fr)
	depth := len(st.Frames)
	x.block(st, fn.Blocks[0], nil, func(st2 *State, ex Exit) {
		// pop frame
		if len(st2.Frames) >= depth {
			st2.Frames = st2.Frames[:depth-1]
		}
		k(st2, ex)
	})
}

func (x *Exec) loopOrdinals(fn *ssa.Function) map[int]int {
	if m, ok := x.loops[fn]; ok {
		return m
	}
	m := map[int]int{}
	// a loop header is a block that dominates one of its predecessors
	var headers []*ssa.BasicBlock
	for _, b := range fn.Blocks {
		for _, p := range b.Preds {
			if b.Dominates(p) {
				headers = append(headers, b)
				break
			}
		}
	}
	// order by source position of first instruction with a position, fallback to block index
	for i, h := range headers {
		m[h.Index] = i
	}
	x.loops[fn] = m
	return m
}

func (x *Exec) block(st *State, b *ssa.BasicBlock, pred *ssa.BasicBlock, k Cont) {
	if st.Err != "" {
		k(st, Exit{Kind: ExitStop})
		return
	}
	st.Steps++
	if st.Steps > 4000 {
		x.unsupp(st, "step budget exceeded in %s", funcKey(b.Parent()))
		k(st, Exit{Kind: ExitStop})
		return
	}
	fr := st.top()
	fn := b.Parent()
	x.leaveLoops(st, pred, b)
	if ord, isHeader := x.loopOrdinals(fn)[b.Index]; isHeader {
		backEdge := pred != nil && b.Dominates(pred)
		var ls *LoopSpec
		if x.H.Loop != nil {
			ls = x.H.Loop(fn, ord)
		}
		if ls == nil {
			x.unsupp(st, "loop#%d of %s has no contract", ord, funcKey(fn))
			k(st, Exit{Kind: ExitStop})
			return
		}
		if backEdge {
			// inductive step: iteration events + invariant preserved; then stop this path
			mark := fr.LoopMark[b.Index]
			// the iteration's events are matched with the loop variables of the iteration that just ran
			if ls.IterEmits != nil && x.H.MatchIter != nil {
				g := x.H.MatchIter(x, st, ls, st.Events[mark:])
				x.obl(st, ls.Name+"/iteration", g, "events of one iteration", b.Instrs[0].Pos())
			}
			// atend(x): the value of loop variable x at the end of the iteration (what flows into the header's phi along
			// this back edge); a bare x and atiter(x) are its value when the iteration started
			for _, hi := range b.Instrs {
				phi, ok := hi.(*ssa.Phi)
				if !ok {
					break
				}
				if phi.Comment == "" || phi.Comment == "rangeindex" {
					continue
				}
				for ei, p := range b.Preds {
					if p == pred && ei < len(phi.Edges) {
						st.NamedV["atend:"+phi.Comment] = x.val(st, phi.Edges[ei])
					}
				}
			}
			if len(ls.IterEnsures) > 0 && x.H.IterEnsures != nil {
				for i, g := range x.H.IterEnsures(x, st, ls, st.Events[mark:]) {
					x.obl(st, fmt.Sprintf("%s/iteration-ensures#%d", ls.Name, i), g, ls.IterEnsures[i], b.Instrs[0].Pos())
				}
			}
			// phis take their back-edge values for the invariant check
			x.assignPhis(st, b, pred)
			x.exposeLoopVars(st, b)
			for i, adv := range ls.IterAdvances {
				g, err := x.H.EvalExpr(x, st, adv)
				if err != nil {
					x.unsupp(st, "loop contract: %v", err)
					break
				}
				x.obl(st, fmt.Sprintf("%s/iteration-advances#%d", ls.Name, i), g, adv, b.Instrs[0].Pos())
			}
			for i, inv := range ls.Invariant {
				g, err := x.H.EvalExpr(x, st, inv)
				if err != nil {
					x.unsupp(st, "loop invariant: %v", err)
					break
				}
				x.obl(st, fmt.Sprintf("%s/preserved#%d", ls.Name, i), g, inv, b.Instrs[0].Pos())
			}
			k(st, Exit{Kind: ExitStop})
			return
		}
		// entry: establish, havoc, assume
		x.assignPhis(st, b, pred)
		x.exposeLoopVars(st, b)
		for i, inv := range ls.Invariant {
			g, err := x.H.EvalExpr(x, st, inv)
			if err != nil {
				x.unsupp(st, "loop invariant: %v", err)
				break
			}
			x.obl(st, fmt.Sprintf("%s/established#%d", ls.Name, i), g, inv, b.Instrs[0].Pos())
		}
		// havoc phis and heap keys written inside the loop (found by a dry run of the body)
		written := x.loopWrites(st, b)
		for _, ins := range b.Instrs {
			phi, ok := ins.(*ssa.Phi)
			if !ok {
				break
			}
			name := phi.Comment
			if name == "" {
				name = phi.Name()
			}
			fr.Vals[phi] = x.freshLike(st, fmt.Sprintf("%s@loop%d", name, ord), fr.Vals[phi], phi.Type())
		}
		for key := range written {
			old, ok := st.Heap[key]
			if !ok {
				// not read or written before the loop: a cell declared in the loop body (nothing to forget), or a
				// zero-initialised cell declared before it, whose value is unknown from now on
				if st.Zero[keyBase(key)] {
					st.Named["unknown:"+keyBase(key)] = "true"
				}
				continue
			}
			if strings.HasPrefix(key, "arr@") && old.K == KU {
				// the contents of a slice: an array-sorted term, whatever it was built from
				if srt := x.arraySortOf(old.T); srt != "" {
					st.Heap[key] = SVal{K: KU, T: q(x.D.fresh(key+"@loop", srt)), GoT: old.GoT}
					continue
				}
			}
			st.Heap[key] = x.freshLike(st, key+"@loop", old, old.GoT)
		}
		x.exposeLoopVars(st, b)
		for _, inv := range ls.Invariant {
			g, err := x.H.EvalExpr(x, st, inv)
			if err == nil {
				st.assume(g)
			}
		}
		// the loop variables and cells as they are when an iteration starts: atiter(x) in loop contracts
		for _, ins := range b.Instrs {
			phi, ok := ins.(*ssa.Phi)
			if !ok {
				break
			}
			if phi.Comment != "" {
				if v, ok := fr.Vals[phi]; ok {
					st.NamedV["atiter:"+phi.Comment] = v
				}
			}
		}
		for key, v := range st.Heap {
			if !strings.ContainsAny(key, ".#:@") {
				st.NamedV["atiter:"+key] = v
			}
		}
		st.InLoop = append(st.InLoop, b.Index)
		fr.LoopMark[b.Index] = len(st.Events)
		// summary marker for events of completed iterations
		evOrd := ord
		if ls.EvOrd > 0 {
			evOrd = ls.EvOrd - 1
		}
		st.Events = append(st.Events, Event{Name: fmt.Sprintf("loop:L%d", evOrd), Loop: ls.Name, Held: st.heldList()})
		fr.LoopMark[b.Index] = len(st.Events)
		x.instrs(st, b, x.firstNonPhi(b), k)
		return
	}
	x.assignPhis(st, b, pred)
	x.instrs(st, b, x.firstNonPhi(b), k)
}

// naturalLoop returns the set of block indexes of the natural loop of header h.
func naturalLoop(h *ssa.BasicBlock) map[int]bool {
	in := map[int]bool{h.Index: true}
	var stack []*ssa.BasicBlock
	for _, p := range h.Preds {
		if h.Dominates(p) && !in[p.Index] {
			in[p.Index] = true
			stack = append(stack, p)
		}
	}
	for len(stack) > 0 {
		n := stack[len(stack)-1]
		stack = stack[:len(stack)-1]
		for _, p := range n.Preds {
			if !in[p.Index] {
				in[p.Index] = true
				stack = append(stack, p)
			}
		}
	}
	return in
}

// earlyExit raises the no-early-exit obligation when a function exit happens inside a loop body.
func (x *Exec) earlyExit(st *State, b *ssa.BasicBlock, how string, pos token.Pos) {
	if len(st.InLoop) == 0 || len(st.Frames) == 0 {
		return
	}
	fn := b.Parent()
	for _, h := range st.InLoop {
		if h < len(fn.Blocks) && naturalLoop(fn.Blocks[h])[b.Index] {
			ord := x.loopOrdinals(fn)[h]
			if ls := x.H.Loop(fn, ord); ls == nil || !ls.NoExit {
				continue
			}
			x.obl(st, fmt.Sprintf("loop#%d/no-early-exit", ord), "false", "the loop body leaves the function by "+how+" before all iterations ran", pos)
		}
	}
}

// leaveLoops pops loops that control has left; leaving from a block other than the header is an early exit (break).
func (x *Exec) leaveLoops(st *State, from, to *ssa.BasicBlock) {
	if len(st.InLoop) == 0 || from == nil {
		return
	}
	fn := to.Parent()
	if from.Parent() != fn {
		return
	}
	var keep []int
	for _, h := range st.InLoop {
		if h >= len(fn.Blocks) {
			keep = append(keep, h)
			continue
		}
		nl := naturalLoop(fn.Blocks[h])
		if nl[from.Index] && !nl[to.Index] {
			ls := x.H.Loop(fn, x.loopOrdinals(fn)[h])
			atCond := from.Index == h || condBlock(fn.Blocks[h], from, 0)
			if !atCond && ls != nil && ls.NoExit {
				ord := x.loopOrdinals(fn)[h]
				x.obl(st, fmt.Sprintf("loop#%d/no-early-exit", ord), "false", "the loop is left by a break before all iterations ran", from.Instrs[len(from.Instrs)-1].Pos())
			}
			if atCond && ls != nil && len(ls.Exit) > 0 && x.H.EvalExpr != nil && !x.DryRun {
				for i, e := range ls.Exit {
					g, err := x.H.EvalExpr(x, st, e)
					if err != nil {
						x.unsupp(st, "loop exit clause: %v", err)
						break
					}
					x.obl(st, fmt.Sprintf("%s/exit#%d", ls.Name, i), g, "when the loop ends: "+e, from.Instrs[len(from.Instrs)-1].Pos())
				}
			}
			continue
		}
		keep = append(keep, h)
	}
	st.InLoop = keep
}

// condBlock: b belongs to the loop condition of header h (`for a && b`): it computes without side effects and is
// reached from the header through such blocks only. Leaving the loop from it is the loop ending, not a break.
func condBlock(h, b *ssa.BasicBlock, depth int) bool {
	if b == h {
		return true
	}
	if depth > 8 {
		return false
	}
	for _, ins := range b.Instrs {
		switch t := ins.(type) {
		case *ssa.BinOp, *ssa.If, *ssa.DebugRef, *ssa.Phi, *ssa.IndexAddr, *ssa.FieldAddr, *ssa.Field, *ssa.Index, *ssa.Convert, *ssa.ChangeType:
		case *ssa.UnOp:
			if t.Op == token.ARROW {
				return false
			}
		case *ssa.Call:
			bi, ok := t.Call.Value.(*ssa.Builtin)
			if !ok || (bi.Name() != "len" && bi.Name() != "cap") {
				return false
			}
		default:
			return false
		}
	}
	if len(b.Preds) == 0 {
		return false
	}
	for _, p := range b.Preds {
		if !condBlock(h, p, depth+1) {
			return false
		}
	}
	return true
}

// exposeLoopVars publishes the loop's phi values under their source names, and for range-over-slice
// loops the iteration index `it` (index of the current/next iteration) and the ranged slice `ranged`.
func (x *Exec) exposeLoopVars(st *State, b *ssa.BasicBlock) {
	fr := st.top()
	for _, ins := range b.Instrs {
		phi, ok := ins.(*ssa.Phi)
		if !ok {
			break
		}
		if phi.Comment != "" {
			if v, ok := fr.Vals[phi]; ok {
				st.NamedV[phi.Comment] = v
			}
		}
		if phi.Comment == "rangeindex" {
			if v, ok := fr.Vals[phi]; ok && v.K == KInt {
				st.NamedV["it"] = mkInt("(+ " + v.T + " 1)")
			}
			// t = phi + 1 ; c = t < len(X)
			for _, r := range *phi.Referrers() {
				add, ok := r.(*ssa.BinOp)
				if !ok || add.Op != token.ADD {
					continue
				}
				for _, r2 := range *add.Referrers() {
					cmp, ok := r2.(*ssa.BinOp)
					if !ok || cmp.Op != token.LSS {
						continue
					}
					if call, ok := cmp.Y.(*ssa.Call); ok {
						if bi, ok := call.Call.Value.(*ssa.Builtin); ok && bi.Name() == "len" && len(call.Call.Args) == 1 {
							if sv, ok := fr.Vals[call.Call.Args[0]]; ok {
								st.NamedV["ranged"] = sv
							}
						}
					}
				}
			}
		}
	}
}

func (x *Exec) firstNonPhi(b *ssa.BasicBlock) int {
	for i, ins := range b.Instrs {
		if _, ok := ins.(*ssa.Phi); !ok {
			return i
		}
	}
	return len(b.Instrs)
}

func (x *Exec) assignPhis(st *State, b *ssa.BasicBlock, pred *ssa.BasicBlock) {
	if pred == nil {
		return
	}
	fr := st.top()
	idx := -1
	for i, p := range b.Preds {
		if p == pred {
			idx = i
		}
	}
	if idx < 0 {
		return
	}
	// parallel assignment
	newVals := map[*ssa.Phi]SVal{}
	for _, ins := range b.Instrs {
		phi, ok := ins.(*ssa.Phi)
		if !ok {
			break
		}
		newVals[phi] = x.val(st, phi.Edges[idx])
	}
	for p, v := range newVals {
		fr.Vals[p] = v
	}
}

func (x *Exec) freshLike(st *State, name string, old SVal, t types.Type) SVal {
	switch old.K {
	case KInt:
		return SVal{K: KInt, T: q(x.D.fresh(name, "Int")), GoT: old.GoT}
	case KBool:
		return SVal{K: KBool, T: q(x.D.fresh(name, "Bool")), GoT: old.GoT}
	case KSlice:
		arr := x.D.fresh("arr@"+name, "(Array Int "+x.elemSort(old)+")")
		ln := q(x.D.fresh(name+"#len", "Int"))
		cp := q(x.D.fresh(name+"#cap", "Int"))
		st.assume("(>= " + ln + " 0)")
		st.assume("(>= " + cp + " " + ln + ")")
		st.Heap[arr] = SVal{K: KU, T: q(arr)}
		return SVal{K: KSlice, Loc: arr, Off: "0", Len: ln, Cap: cp, GoT: old.GoT}
	case KStruct, KTuple:
		v := SVal{K: old.K, GoT: old.GoT}
		for i, e := range old.Elems {
			v.Elems = append(v.Elems, x.freshLike(st, fmt.Sprintf("%s.%d", name, i), e, e.GoT))
		}
		return v
	}
	return SVal{K: KU, T: q(x.D.fresh(name, "U")), GoT: old.GoT}
}

func (x *Exec) elemSort(v SVal) string {
	if sl, ok := isSlice(v.GoT); ok {
		return sortOf(sl.Elem())
	}
	return "U"
}

// loopWrites performs a dry run of the loop body to collect heap keys written in it.
func (x *Exec) loopWrites(st *State, header *ssa.BasicBlock) map[string]bool {
	written := map[string]bool{}
	if x.DryRun {
		return written
	}
	saveH := x.H
	savePaths := x.Paths
	x.DryRun = true
	dry := st.clone()
	dry.Written = map[string]bool{}
	dry.Init = map[string]SVal{}
	for k, v := range st.Init {
		dry.Init[k] = v
	}
	h2 := x.H
	h2.Loop = func(fn *ssa.Function, ord int) *LoopSpec {
		return &LoopSpec{Name: "dry"}
	}
	x.H = h2
	fr := dry.top()
	fr.LoopMark[header.Index] = len(dry.Events)
	x.instrs(dry, header, x.firstNonPhi(header), func(s2 *State, ex Exit) {
		for k := range s2.Written {
			written[k] = true
		}
	})
	x.H = saveH
	x.DryRun = false
	x.Paths = savePaths
	// errors in the dry run are reported by the real run
	return written
}

func (x *Exec) instrs(st *State, b *ssa.BasicBlock, i int, k Cont) {
	for ; i < len(b.Instrs); i++ {
		if st.Err != "" {
			k(st, Exit{Kind: ExitStop})
			return
		}
		ins := b.Instrs[i]
		fr := st.top()
		switch ins := ins.(type) {
		case *ssa.If:
			c := x.val(st, ins.Cond)
			ct := c.T
			if ct == "true" {
				x.block(st, b.Succs[0], b, k)
				return
			}
			if ct == "false" {
				x.block(st, b.Succs[1], b, k)
				return
			}
			x.Paths++
			if x.Paths > x.MaxPaths {
				x.unsupp(st, "path budget exceeded in %s", funcKey(b.Parent()))
				k(st, Exit{Kind: ExitStop})
				return
			}
			st2 := st.clone()
			st.assume(ct)
			x.block(st, b.Succs[0], b, k)
			st2.assume(not(ct))
			x.block(st2, b.Succs[1], b, k)
			return
		case *ssa.Jump:
			x.block(st, b.Succs[0], b, k)
			return
		case *ssa.Return:
			x.earlyExit(st, b, "return", ins.Pos())
			var rs []SVal
			for _, r := range ins.Results {
				rs = append(rs, x.val(st, r))
			}
			k(st, Exit{Kind: ExitReturn, Results: rs})
			return
		case *ssa.Panic:
			x.earlyExit(st, b, "panic", ins.Pos())
			v := x.val(st, ins.X)
			x.unwind(st, Exit{Kind: ExitPanic, Panic: v}, k)
			return
		case *ssa.RunDefers:
			ii := i
			x.runDefers(st, func(st2 *State, ex Exit) {
				if ex.Kind == ExitPanic || ex.Kind == ExitStop {
					k(st2, ex)
					return
				}
				x.instrs(st2, b, ii+1, k)
			})
			return
		case *ssa.Defer:
			fr.Defers = append(fr.Defers, ins)
		case *ssa.Go:
			x.goStmt(st, ins)
		case *ssa.Store:
			x.storeInstr(st, ins)
		case *ssa.MapUpdate:
			x.mapUpdate(st, ins)
		case *ssa.Send:
			ch := x.val(st, ins.Chan)
			v := x.val(st, ins.X)
			x.event(st, Event{Name: "chsend:" + provName(ch), Args: []SVal{ch, v}, Pos: ins.Pos()})
		case *ssa.DebugRef:
		case *ssa.Call:
			ii := i
			x.call(st, ins, ins.Common(), func(st2 *State, ex Exit) {
				if ex.Kind == ExitPanic {
					x.unwind(st2, ex, k)
					return
				}
				if ex.Kind == ExitStop {
					k(st2, ex)
					return
				}
				fr2 := st2.top()
				switch len(ex.Results) {
				case 0:
				case 1:
					fr2.Vals[ins] = ex.Results[0]
				default:
					fr2.Vals[ins] = SVal{K: KTuple, Elems: ex.Results}
				}
				x.instrs(st2, b, ii+1, k)
			})
			return
		case ssa.Value:
			v, forked := x.valueInstr(st, b, i, ins, k)
			if forked {
				return
			}
			fr.Vals[ins] = v
		default:
			x.unsupp(st, "instruction %T in %s", ins, funcKey(b.Parent()))
		}
	}
	k(st, Exit{Kind: ExitStop})
}

// unwind propagates a panic out of the current frame: run its deferred calls, then hand the panic to k.
func (x *Exec) unwind(st *State, ex Exit, k Cont) {
	x.runDefers(st, func(st2 *State, ex2 Exit) {
		if ex2.Kind == ExitStop {
			k(st2, ex2)
			return
		}
		k(st2, ex)
	})
}

func (x *Exec) runDefers(st *State, k Cont) {
	fr := st.top()
	if len(fr.Defers) == 0 {
		k(st, Exit{Kind: ExitReturn})
		return
	}
	d := fr.Defers[len(fr.Defers)-1]
	fr.Defers = fr.Defers[:len(fr.Defers)-1]
	x.call(st, nil, d.Common(), func(st2 *State, ex Exit) {
		if ex.Kind == ExitPanic || ex.Kind == ExitStop {
			k(st2, ex)
			return
		}
		x.runDefers(st2, k)
	})
}

// ---------------------------------------------------------------------------
// Values
// ---------------------------------------------------------------------------

func (x *Exec) val(st *State, v ssa.Value) SVal {
	fr := st.top()
	if sv, ok := fr.Vals[v]; ok {
		return sv
	}
	switch v := v.(type) {
	case *ssa.Const:
		return x.constVal(st, v)
	case *ssa.Function:
		return SVal{K: KFn, Fn: v, GoT: v.Type()}
	case *ssa.Global:
		return SVal{K: KLoc, Loc: "global:" + v.Name(), GoT: v.Type(), Src: "global:" + v.Name()}
	case *ssa.Builtin:
		return SVal{K: KU, T: "nil", Src: "builtin:" + v.Name()}
	case *ssa.FreeVar:
		// unbound free variable: a cell named after it (stand-alone verification of a closure)
		sv := SVal{K: KLoc, Loc: v.Name(), GoT: v.Type(), Src: v.Name()}
		fr.Vals[v] = sv
		return sv
	case *ssa.Parameter:
		sv := x.paramVal(st, v)
		fr.Vals[v] = sv
		return sv
	}
	x.unsupp(st, "value %s (%T) undefined in %s", v.Name(), v, funcKey(fr.Fn))
	return mkU("nil")
}

func (x *Exec) paramVal(st *State, p *ssa.Parameter) SVal {
	t := p.Type()
	if pt, ok := t.Underlying().(*types.Pointer); ok {
		if _, isStruct := pt.Elem().Underlying().(*types.Struct); isStruct || true {
			return SVal{K: KLoc, Loc: p.Name(), GoT: t, Src: p.Name()}
		}
	}
	sv := x.symbolic(st, p.Name(), t)
	sv.Src = p.Name()
	return sv
}

func (x *Exec) constVal(st *State, c *ssa.Const) SVal {
	t := c.Type()
	if c.Value == nil {
		// zero value / nil
		return x.zeroValue(t)
	}
	switch c.Value.Kind() {
	case constant.Bool:
		return SVal{K: KBool, T: boolLit(constant.BoolVal(c.Value)), GoT: t}
	case constant.Int:
		if sortOf(t) == "Int" {
			if i, ok := constant.Int64Val(c.Value); ok {
				return SVal{K: KInt, T: intLit(i), GoT: t}
			}
			if u, ok := constant.Uint64Val(c.Value); ok {
				return SVal{K: KInt, T: fmt.Sprint(u), GoT: t}
			}
		}
		return SVal{K: KU, T: q(x.D.constOf("num!"+c.Value.ExactString(), "U")), GoT: t}
	case constant.String:
		s := constant.StringVal(c.Value)
		if s == "" {
			return SVal{K: KU, T: q(x.D.constOf("str!empty", "U")), GoT: t}
		}
		return SVal{K: KU, T: q(x.D.constOf("str!"+s, "U")), GoT: t}
	default:
		return SVal{K: KU, T: q(x.D.constOf("num!"+c.Value.ExactString(), "U")), GoT: t}
	}
}

var newPrefixRe = regexp.MustCompile(`^new#[0-9]+:`)

func provName(v SVal) string {
	n := v.Src
	if n == "" && v.K == KLoc {
		n = v.Loc
	}
	if n == "" {
		return "?"
	}
	return newPrefixRe.ReplaceAllString(n, "")
}

func (x *Exec) shortName(name string) string {
	if x.RecvName != "" && strings.HasPrefix(name, x.RecvName+".") {
		return name[len(x.RecvName)+1:]
	}
	return name
}

func (x *Exec) event(st *State, ev Event) *Event {
	ev.Held = st.heldList()
	ev.Ctx = st.Ctx
	for i, a := range ev.Args {
		if a.K == KSlice && a.Snap == "" {
			a.Snap = x.arrTerm(st, a)
			ev.Args[i] = a
		}
	}
	if (strings.HasPrefix(ev.Name, "destination.") || strings.HasSuffix(ev.Name, ".NextWithContext") || strings.HasSuffix(ev.Name, ".ErrorWithContext") || strings.HasSuffix(ev.Name, ".CompleteWithContext")) && !x.DryRun {
		ev.Cells = map[string]SVal{}
		for key, v := range st.Heap {
			if strings.ContainsAny(key, ".#:@[!") {
				continue
			}
			if v.K == KSlice && v.Snap == "" {
				v.Snap = x.arrTerm(st, v)
			}
			ev.Cells[key] = v
		}
	}
	st.Events = append(st.Events, ev)
	e := &st.Events[len(st.Events)-1]
	if x.H.OnEvent != nil {
		x.H.OnEvent(x, st, e)
	}
	return e
}

func (x *Exec) storeInstr(st *State, ins *ssa.Store) {
	addr := x.val(st, ins.Addr)
	v := x.val(st, ins.Val)
	if addr.K != KLoc {
		x.unsupp(st, "store through untracked pointer %s in %s at %s", ins.Addr.Name(), funcKey(ins.Parent()), x.pos(ins.Pos()))
		return
	}
	if v.GoT == nil {
		v.GoT = ins.Val.Type()
	}
	if strings.HasPrefix(addr.Loc, "elem:") {
		// element of a heap array: elem:<arrkey>:<index term>
		x.storeElem(st, addr, v)
		return
	}
	if x.H.FieldAccess != nil {
		x.H.FieldAccess(x, st, addr.Loc, true, &v, ins.Pos())
	}
	v.Src = ""
	x.store(st, addr.Loc, v)
}

func splitElem(loc string) (arr, idx string) {
	rest := strings.TrimPrefix(loc, "elem:")
	i := strings.Index(rest, "::")
	return rest[:i], rest[i+2:]
}

func (x *Exec) storeElem(st *State, addr SVal, v SVal) {
	if strings.Contains(addr.Loc, "##") {
		x.unsupp(st, "store to a field of a struct held in a slice element")
		return
	}
	arr, idx := splitElem(addr.Loc)
	cur, ok := st.Heap[arr]
	if !ok {
		x.unsupp(st, "store to unknown array %s", arr)
		return
	}
	st.Heap[arr] = SVal{K: KU, T: "(store " + cur.T + " " + idx + " " + x.termOf(st, v) + ")"}
	st.Written[arr] = true
}

func (x *Exec) goStmt(st *State, ins *ssa.Go) {
	c := ins.Common()
	var args []SVal
	for _, a := range c.Args {
		args = append(args, x.val(st, a))
	}
	name := "spawn:?"
	if c.StaticCallee() != nil {
		name = "spawn:" + c.StaticCallee().Name()
	} else if !c.IsInvoke() {
		fv := x.val(st, c.Value)
		if fv.K == KClosure {
			name = "spawn:" + funcKey(fv.Fn)
		}
	}
	x.event(st, Event{Name: name, Args: args, Pos: ins.Pos()})
}

func (x *Exec) mapUpdate(st *State, ins *ssa.MapUpdate) {
	m := x.val(st, ins.Map)
	key := x.val(st, ins.Key)
	v := x.val(st, ins.Value)
	if m.K != KMap {
		x.unsupp(st, "map update on non-map value")
		return
	}
	mt, _ := isMap(m.GoT)
	vs := "U"
	if mt != nil {
		vs = sortOf(mt.Elem())
	}
	has, vals := x.mapArrays(st, m, vs)
	kt := x.keyTerm(st, key)
	st.Heap[m.Loc+"#has"] = SVal{K: KU, T: "(store " + has + " " + kt + " true)"}
	st.Heap[m.Loc+"#val"] = SVal{K: KU, T: "(store " + vals + " " + kt + " " + x.termOf(st, v) + ")"}
	st.Written[m.Loc+"#has"] = true
	st.Written[m.Loc+"#val"] = true
}

func (x *Exec) keyTerm(st *State, key SVal) string {
	t := x.termOf(st, key)
	if x.sortOfVal(key) == "Int" {
		return x.D.app("box!int", []string{t}, []string{"Int"}, "U")
	}
	if x.sortOfVal(key) == "Bool" {
		return x.D.app("box!bool", []string{t}, []string{"Bool"}, "U")
	}
	return t
}

func (x *Exec) mapArrays(st *State, m SVal, vs string) (has, vals string) {
	if h, ok := st.Heap[m.Loc+"#has"]; ok {
		has = h.T
	} else {
		has = q(x.D.constOf(m.Loc+"#has", "(Array U Bool)"))
		st.Heap[m.Loc+"#has"] = SVal{K: KU, T: has}
	}
	if v, ok := st.Heap[m.Loc+"#val"]; ok {
		vals = v.T
	} else {
		vals = q(x.D.constOf(m.Loc+"#val", "(Array U "+vs+")"))
		st.Heap[m.Loc+"#val"] = SVal{K: KU, T: vals}
	}
	return
}

// arraySortOf: the SMT sort of an array-valued term (a declared constant, sl!arr!X(...), store(...), a constant array).
func (x *Exec) arraySortOf(t string) string {
	t = strings.TrimSpace(t)
	if srt, ok := x.D.consts[strings.Trim(t, "|")]; ok && strings.HasPrefix(srt, "(Array") {
		return srt
	}
	if strings.HasPrefix(t, "(|sl!arr!") {
		rest := strings.TrimPrefix(t, "(|sl!arr!")
		if i := strings.Index(rest, "|"); i > 0 {
			return "(Array Int " + rest[:i] + ")"
		}
	}
	if strings.HasPrefix(t, "(store ") {
		// (store A i v): the sort of A
		inner := strings.TrimPrefix(t, "(store ")
		depth, end := 0, -1
		for i, c := range inner {
			if c == '(' {
				depth++
			} else if c == ')' {
				depth--
				if depth == 0 {
					end = i + 1
					break
				}
			} else if c == ' ' && depth == 0 {
				end = i
				break
			}
		}
		if end > 0 {
			return x.arraySortOf(inner[:end])
		}
	}
	if strings.HasPrefix(t, "((as const (Array Int ") {
		rest := strings.TrimPrefix(t, "((as const ")
		if i := strings.Index(rest, "))"); i > 0 {
			return rest[:i+1]
		}
	}
	return ""
}

// maybeNil: a pointer to a scalar / type-parameter cell that is read out of state the function does not control (a
// captured cell or field as it is when the function starts, or after it was havocked) may be nil: comparisons with nil
// are then decided by the solver, and a dereference owes `nopanic/nil`. Pointers to tracked objects (structs) and
// parameters keep the non-nil assumption (stated in DESIGN section 11).
func (x *Exec) maybeNil(v SVal, name string, t types.Type) SVal {
	if v.K != KLoc || !strings.HasSuffix(v.Loc, "^") {
		return v
	}
	if _, ok := t.Underlying().(*types.Pointer); !ok {
		return v
	}
	v.NilC = q(x.D.constOf(name+"#isnil", "Bool"))
	return v
}
