package main

import (
	"fmt"
	"go/token"
	"go/types"
	"sort"
	"strings"

	"golang.org/x/tools/go/ssa"
)

// ---------------------------------------------------------------------------
// P7: lockset / ownership of the cells of a subscription (C13)
//
// For every cell allocated by a subscribe function, the contexts that access it are computed:
// each upstream subscription's callbacks, each goroutine / timer body, and the teardown (which runs on
// whichever goroutine unsubscribes and is therefore concurrent with all the others). A cell reached from
// two concurrent contexts must be accessed only atomically, or always under one common lock, or hold an
// internally synchronised value that is never re-assigned after the contexts exist.
// ---------------------------------------------------------------------------

type accessInfo struct {
	fn     *ssa.Function
	ins    ssa.Instruction
	write  bool
	atomic bool
	method bool // a method call on the cell's address (sync.Map.Store, Mutex.Lock, ...)
	locks  map[ssa.Value]bool
}

// precedes: instruction a is executed before instruction b whenever b is executed (same function, a dominates b).
func precedes(a, b ssa.Instruction) bool {
	if a.Parent() != b.Parent() {
		return false
	}
	if a.Block() == b.Block() {
		for _, ins := range a.Block().Instrs {
			if ins == a {
				return true
			}
			if ins == b {
				return false
			}
		}
		return false
	}
	return a.Block().Dominates(b.Block())
}

func isSyncType(t types.Type) bool {
	if p, ok := t.(*types.Pointer); ok {
		t = p.Elem()
	}
	n, ok := t.(*types.Named)
	if !ok || n.Obj().Pkg() == nil {
		return false
	}
	p := n.Obj().Pkg().Path()
	switch {
	case p == "sync", p == "sync/atomic":
		return true
	case strings.HasSuffix(p, "internal/xsync"), strings.HasSuffix(p, "internal/xatomic"):
		return true
	}
	return false
}

// lockOp classifies a call as a lock / unlock of a lock identified by the cell holding it.
func (s *pSite) lockOp(c *ssa.CallCommon) (lock ssa.Value, op string) {
	name := ""
	var recv ssa.Value
	if c.IsInvoke() {
		name = c.Method.Name()
		recv = c.Value
		if !isLockType(c.Value.Type()) {
			return nil, ""
		}
	} else if f := c.StaticCallee(); f != nil && f.Signature.Recv() != nil && len(c.Args) > 0 {
		if !isLockType(f.Signature.Recv().Type()) {
			return nil, ""
		}
		name = f.Name()
		recv = c.Args[0]
	} else {
		return nil, ""
	}
	op = lockMethods[name]
	if op == "" || op == "trylock" {
		return nil, ""
	}
	// identity: the cell the lock lives in (sync.Mutex cell) or was loaded from (xsync.Mutex interface value)
	r := s.root(stripLoad(recv))
	return r, op
}

// locksets computes, for every instruction of fn, the set of locks certainly held before it.
func (s *pSite) locksets(fn *ssa.Function, entry map[ssa.Value]bool) map[ssa.Instruction]map[ssa.Value]bool {
	out := map[ssa.Instruction]map[ssa.Value]bool{}
	if fn.Blocks == nil {
		return out
	}
	in := map[*ssa.BasicBlock]map[ssa.Value]bool{}
	copySet := func(m map[ssa.Value]bool) map[ssa.Value]bool {
		c := map[ssa.Value]bool{}
		for k, v := range m {
			if v {
				c[k] = true
			}
		}
		return c
	}
	in[fn.Blocks[0]] = copySet(entry)
	work := []*ssa.BasicBlock{fn.Blocks[0]}
	for len(work) > 0 {
		b := work[0]
		work = work[1:]
		cur := copySet(in[b])
		for _, ins := range b.Instrs {
			out[ins] = copySet(cur)
			if call, ok := ins.(*ssa.Call); ok {
				if l, op := s.lockOp(call.Common()); l != nil {
					if op == "lock" {
						cur[l] = true
					} else {
						delete(cur, l)
					}
				}
			}
			// a deferred unlock keeps the lock until the function returns: nothing to do
		}
		for _, succ := range b.Succs {
			old, seen := in[succ]
			if !seen {
				in[succ] = copySet(cur)
				work = append(work, succ)
				continue
			}
			// meet = intersection
			changed := false
			for k := range old {
				if !cur[k] {
					delete(old, k)
					changed = true
				}
			}
			if changed {
				work = append(work, succ)
			}
		}
	}
	return out
}

func (pc *pCtx) p7Lockset(s *pSite, wantRaces, wantOrder bool) {
	props := []string{"C13"}
	// contexts: name -> functions (with the locks held on entry, for helper closures called under a lock)
	type ctxDef struct {
		name    string
		fns     map[*ssa.Function]map[ssa.Value]bool
		created ssa.Instruction // the Subscribe / go / AfterFunc instruction that starts the context
	}
	var ctxs []*ctxDef
	addFns := func(cd *ctxDef, roots []*ssa.Function) {
		var visit func(f *ssa.Function, entry map[ssa.Value]bool)
		visit = func(f *ssa.Function, entry map[ssa.Value]bool) {
			if old, ok := cd.fns[f]; ok {
				// keep the intersection of entry locksets
				changed := false
				for k := range old {
					if !entry[k] {
						delete(old, k)
						changed = true
					}
				}
				if !changed {
					return
				}
			} else {
				c := map[ssa.Value]bool{}
				for k, v := range entry {
					if v {
						c[k] = true
					}
				}
				cd.fns[f] = c
			}
			ls := s.locksets(f, cd.fns[f])
			for _, b := range f.Blocks {
				for _, ins := range b.Instrs {
					switch t := ins.(type) {
					case *ssa.Call:
						if !t.Common().IsInvoke() {
							for _, cf := range s.calleesOf(t.Common()) {
								visit(cf, ls[ins])
							}
						}
						// closures passed to sync.Map.Range / sync.Once.Do run in place
						if f2 := t.Common().StaticCallee(); f2 != nil && (f2.Name() == "Range" || f2.Name() == "Do") && pkgPathOf(f2) == "sync" {
							for _, a := range t.Common().Args {
								for _, cf := range s.closuresOfValue(a) {
									visit(cf, ls[ins])
								}
							}
						}
						if f2 := t.Common().StaticCallee(); f2 != nil && isRoPkg(pkgPathOf(f2)) {
							for _, a := range t.Common().Args {
								for _, cf := range s.closuresOfValue(a) {
									visit(cf, ls[ins])
								}
							}
						}
					case *ssa.Defer:
						if !t.Common().IsInvoke() {
							for _, cf := range s.calleesOf(t.Common()) {
								// deferred calls run at return: locks released by then are not known; assume none
								visit(cf, map[ssa.Value]bool{})
							}
						}
					}
				}
			}
		}
		for _, r := range roots {
			visit(r, map[ssa.Value]bool{})
		}
	}
	kinds := []string{"next", "error", "complete"}
	for ti := range s.Triples {
		t := &s.Triples[ti]
		cd := &ctxDef{name: "callbacks of " + t.Source, fns: map[*ssa.Function]map[ssa.Value]bool{}}
		for _, r := range *t.Call.Referrers() {
			if c2, ok := r.(*ssa.Call); ok && c2.Common().IsInvoke() && strings.HasPrefix(c2.Common().Method.Name(), "Subscribe") {
				cd.created = c2
			}
		}
		var roots []*ssa.Function
		for i, a := range t.Args {
			_ = kinds[i]
			for _, cf := range s.closuresOfValue(a) {
				if !strings.HasSuffix(cf.Name(), "$bound") {
					roots = append(roots, cf)
				}
			}
		}
		addFns(cd, roots)
		// a subscription made from inside a callback or a loop has many instances running concurrently
		ctxs = append(ctxs, cd)
	}
	for _, fn := range s.Closures {
		for _, b := range fn.Blocks {
			for _, ins := range b.Instrs {
				switch t := ins.(type) {
				case *ssa.Go:
					cd := &ctxDef{name: "goroutine", fns: map[*ssa.Function]map[ssa.Value]bool{}, created: t}
					var roots []*ssa.Function
					roots = append(roots, s.closuresOfValue(t.Common().Value)...)
					for _, a := range t.Common().Args {
						roots = append(roots, s.closuresOfValue(a)...)
					}
					addFns(cd, roots)
					ctxs = append(ctxs, cd)
				case *ssa.Call:
					// a library helper that is handed local closures (zipInnerSubscription(..., onUpdate, ...)) subscribes
					// on our behalf: each such call is a context running those closures
					if f := t.Common().StaticCallee(); f != nil && isRoPkg(pkgPathOf(f)) && !observableCtors[staticCalleeName(t.Common())] && f.Name() != "NewObserverWithContext" && f.Name() != "NewObserver" && f.Name() != "recoverUnhandledError" {
						var roots []*ssa.Function
						for _, a := range t.Common().Args {
							roots = append(roots, s.closuresOfValue(a)...)
						}
						hasSub := false
						hfn := f
						if o := f.Origin(); o != nil {
							hfn = o
						}
						for _, hf := range closureTree(hfn) {
							for _, hb := range hf.Blocks {
								for _, hi := range hb.Instrs {
									if hc, ok := hi.(*ssa.Call); ok && hc.Common().IsInvoke() && strings.HasPrefix(hc.Common().Method.Name(), "Subscribe") {
										hasSub = true
									}
								}
							}
						}
						if len(roots) > 0 && hasSub {
							cd := &ctxDef{name: "callbacks subscribed by " + f.Name(), fns: map[*ssa.Function]map[ssa.Value]bool{}, created: t}
							addFns(cd, roots)
							ctxs = append(ctxs, cd)
						}
					}
					if f := t.Common().StaticCallee(); f != nil && pkgPathOf(f) == "time" && f.Name() == "AfterFunc" && len(t.Common().Args) == 2 {
						cd := &ctxDef{name: "timer", fns: map[*ssa.Function]map[ssa.Value]bool{}, created: t}
						addFns(cd, s.closuresOfValue(t.Common().Args[1]))
						ctxs = append(ctxs, cd)
					}
				}
			}
		}
	}
	// finalizers registered with a subscription (subscriptions.Add(func() { ... })) run when the unsubscription
	// happens, on whichever goroutine it happens: they belong to the teardown context
	tds := append([]*ssa.Function{}, s.Teardowns...)
	for _, fn := range s.Closures {
		for _, b := range fn.Blocks {
			for _, ins := range b.Instrs {
				if call, ok := ins.(*ssa.Call); ok && call.Common().IsInvoke() && call.Common().Method.Name() == "Add" && len(call.Common().Args) == 1 {
					tds = append(tds, s.closuresOfValue(call.Common().Args[0])...)
				}
			}
		}
	}
	if len(tds) > 0 {
		cd := &ctxDef{name: "teardown", fns: map[*ssa.Function]map[ssa.Value]bool{}}
		addFns(cd, tds)
		ctxs = append(ctxs, cd)
	}
	if len(ctxs) < 2 {
		return
	}
	var oprops11 []string
	var inCtxs11 map[*ssa.Function]map[string]bool
	var entryOf11 map[*ssa.Function]map[ssa.Value]bool
	var writes11 map[string]map[*ssa.Alloc]bool
	if wantOrder {
		// P11: a value taken out of shared state under a lock and handed downstream after that lock was released can be
		// overtaken by the same hand-over running in another context (a tick and a source value, two sources): the
		// downstream then sees the values out of the order in which they were taken.
		timed := false
		for _, cd := range ctxs {
			if cd.name == "timer" || strings.Contains(cd.name, "Interval") || strings.Contains(cd.name, "Timer") {
				timed = true
			}
		}
		oprops := []string{"C05"}
		if timed {
			oprops = []string{"C16"}
		}
		inCtxs := map[*ssa.Function]map[string]bool{}
		entryOf := map[*ssa.Function]map[ssa.Value]bool{}
		for ci, cd := range ctxs {
			if cd.name == "teardown" {
				continue
			}
			for fn, entry := range cd.fns {
				if inCtxs[fn] == nil {
					inCtxs[fn] = map[string]bool{}
					entryOf[fn] = entry
				} else {
					for k := range entryOf[fn] {
						if !entry[k] {
							delete(entryOf[fn], k)
						}
					}
				}
				inCtxs[fn][fmt.Sprintf("%d:%s", ci, cd.name)] = true
			}
		}
		// what each context writes and whether it talks to the downstream
		writes := map[string]map[*ssa.Alloc]bool{}
		delivers := map[string]bool{}
		deliversNext := map[string]bool{}
		for ci, cd := range ctxs {
			if cd.name == "teardown" {
				continue
			}
			cn := fmt.Sprintf("%d:%s", ci, cd.name)
			writes[cn] = map[*ssa.Alloc]bool{}
			for fn := range cd.fns {
				for _, b := range fn.Blocks {
					for _, ins := range b.Instrs {
						for _, tgt := range s.writeTargets(ins) {
							if al, ok := tgt.(*ssa.Alloc); ok {
								writes[cn][al] = true
							}
						}
						if call, ok := ins.(*ssa.Call); ok && call.Common().IsInvoke() && s.isDest(call.Common().Value) {
							delivers[cn] = true
							if strings.HasPrefix(call.Common().Method.Name(), "Next") {
								deliversNext[cn] = true
							}
						}
					}
				}
			}
		}
		// competitor: another context that refills or takes the same cell and also reaches the downstream
		competitor := func(fn *ssa.Function, al *ssa.Alloc) string {
			if len(inCtxs[fn]) >= 2 {
				return fmt.Sprintf("the function runs in %d concurrent contexts", len(inCtxs[fn]))
			}
			// another context that also takes (rewrites) the cell and hands values to the downstream: the two
			// hand-overs must be ordered with each other (the count path of a buffer against the flush of its timer)
			for cn2, ws := range writes {
				if !inCtxs[fn][cn2] && al != nil && ws[al] && deliversNext[cn2] {
					return "context " + strings.SplitN(cn2, ":", 2)[1] + " also takes " + cellName(al) + " and delivers values"
				}
			}
			// (a take in one function overtaken by a terminal notification of another context is an arrival order of
			// its own - SampleWhen's tick against the completion of the source - and is not flagged)
			return ""
		}
		oprops11, inCtxs11, entryOf11, writes11 = oprops, inCtxs, entryOf, writes
		var fns []*ssa.Function
		for fn := range inCtxs {
			fns = append(fns, fn)
		}
		sort.Slice(fns, func(i, j int) bool { return funcKey(fns[i]) < funcKey(fns[j]) })
		for _, fn := range fns {
			ls := s.locksets(fn, entryOf[fn])
			n := 0
			for _, b := range fn.Blocks {
				for _, ins := range b.Instrs {
					call, ok := ins.(*ssa.Call)
					if !ok || !call.Common().IsInvoke() || !strings.HasPrefix(call.Common().Method.Name(), "Next") || !s.isDest(call.Common().Value) {
						continue
					}
					n++
					args := call.Common().Args
					if len(args) == 0 {
						continue
					}
					val := args[len(args)-1]
					// loads of shared cells the delivered value is computed from
					var loads []*ssa.UnOp
					var atomicLoads []*ssa.Call
					atomicCell := map[*ssa.Call]*ssa.Alloc{}
					seen := map[ssa.Value]bool{}
					var via []viaTake
					var curOuter *ssa.Call
					var back func(v ssa.Value, d int)
					back = func(v ssa.Value, d int) {
						if v == nil || seen[v] || d > 12 {
							return
						}
						seen[v] = true
						switch t := v.(type) {
						case *ssa.UnOp:
							if t.Op == token.MUL {
								if al, ok := s.root(t.X).(*ssa.Alloc); ok && al.Parent() == s.Subscribe && !inLoop(al) {
									loads = append(loads, t)
									return
								}
							}
							back(t.X, d+1)
						case *ssa.Phi:
							for _, e := range t.Edges {
								back(e, d+1)
							}
						case *ssa.Slice:
							back(t.X, d+1)
						case *ssa.ChangeType:
							back(t.X, d+1)
						case *ssa.Convert:
							back(t.X, d+1)
						case *ssa.MakeInterface:
							back(t.X, d+1)
						case *ssa.Field:
							back(t.X, d+1)
						case *ssa.FieldAddr:
							back(t.X, d+1)
						case *ssa.IndexAddr:
							back(t.X, d+1)
						case *ssa.Extract:
							back(t.Tuple, d+1)
						case *ssa.Call:
							// an atomic reading of a shared cell (valueA.Load(), atomic.LoadInt64(&n)) is a take without a lock
							if f := t.Common().StaticCallee(); f != nil && strings.HasPrefix(f.Name(), "Load") && len(t.Common().Args) > 0 &&
								(pkgPathOf(f) == "sync/atomic" || (f.Signature.Recv() != nil && isSyncType(f.Signature.Recv().Type()))) {
								// the atomic itself, or one reached through the cells that hold it (values[i].Load())
								cur := s.root(t.Common().Args[0])
								for k := 0; k < 6; k++ {
									u, isLoad := cur.(*ssa.UnOp)
									if !isLoad || u.Op != token.MUL {
										break
									}
									cur = s.root(u.X)
								}
								if al, ok := cur.(*ssa.Alloc); ok && al.Parent() == s.Subscribe && !inLoop(al) {
									atomicLoads = append(atomicLoads, t)
									atomicCell[t] = al
									return
								}
							}
							// a value built from the arguments (lo.T2(*a, *b), a conversion helper)
							if !t.Common().IsInvoke() {
								for _, a := range t.Common().Args {
									back(a, d+1)
								}
								// a value a local helper closure returns (result, ok := snapshot()): what the helper
								// read from shared cells counts as taken at the call
								for _, cf := range s.calleesOf(t.Common()) {
									if !s.InTree[cf] || cf == fn || cf.Blocks == nil || d > 8 {
										continue
									}
									outer := curOuter
									if t.Parent() == fn {
										curOuter = t
									}
									n0, m0 := len(loads), len(atomicLoads)
									for _, cb := range cf.Blocks {
										if len(cb.Instrs) == 0 {
											continue
										}
										if ret, ok := cb.Instrs[len(cb.Instrs)-1].(*ssa.Return); ok {
											for _, r := range ret.Results {
												back(r, d+1)
											}
										}
									}
									if curOuter != nil {
										for _, ld := range loads[n0:] {
											if al, ok := s.root(ld.X).(*ssa.Alloc); ok && ld.Parent() != fn {
												via = append(via, viaTake{curOuter, al, false})
											}
										}
										for _, ld := range atomicLoads[m0:] {
											if ld.Parent() != fn {
												via = append(via, viaTake{curOuter, atomicCell[ld], true})
											}
										}
									}
									curOuter = outer
								}
							}
						case *ssa.BinOp:
							back(t.X, d+1)
							back(t.Y, d+1)
						case *ssa.MakeSlice, *ssa.Alloc:
							// a local aggregate filled element by element (result[i] = *v): what was stored into it
							if al, ok := t.(*ssa.Alloc); ok && al.Parent() != fn {
								break
							}
							if refs := v.Referrers(); refs != nil {
								for _, r := range *refs {
									var addr ssa.Value
									switch a := r.(type) {
									case *ssa.IndexAddr:
										addr = a
									case *ssa.FieldAddr:
										addr = a
									}
									if addr == nil || addr.Referrers() == nil {
										continue
									}
									for _, r2 := range *addr.Referrers() {
										if st, ok := r2.(*ssa.Store); ok && st.Addr == addr {
											back(st.Val, d+1)
										}
									}
								}
							}
						case *ssa.Index:
							back(t.X, d+1)
						case *ssa.Lookup:
							back(t.X, d+1)
						}
					}
					back(val, 0)
					ok2 := true
					note := ""
					relevant := false
					for _, ld := range loads {
						if ld.Parent() != fn {
							continue
						}
						al, _ := s.root(ld.X).(*ssa.Alloc)
						why := competitor(fn, al)
						if why == "" {
							continue
						}
						relevant = true
						common := s.handedOver(fn, ls, ls[ld], ls[ins]) // a lock (chain) held from the take to the delivery orders concurrent hand-overs
						for l := range ls[ld] {
							if !common && !ls[ins][l] {
								ok2 = false
								note = fmt.Sprintf("%s takes %s under %s (%s) and delivers it after the lock is released (%s); %s, so a later take (or a terminal notification) can reach the downstream first", funcKey(fn), cellName(s.root(ld.X)), cellName(l), pc.pos(ld.Pos()), pc.pos(ins.Pos()), why)
							}
						}
					}
					for _, ld := range atomicLoads {
						if ld.Parent() != fn || len(inCtxs[fn]) < 2 {
							continue
						}
						relevant = true
						common := s.handedOver(fn, ls, ls[ld], ls[ins])
						if common {
							// the reading and the delivery are one step under a lock: the stores the reading competes
							// with must be part of such a step too (store - read the others - deliver), otherwise two
							// stores slip in before either delivery and one combination is delivered twice, one never
							for fn2 := range inCtxs {
								ls2 := s.locksets(fn2, entryOf[fn2])
								for _, b2 := range fn2.Blocks {
									for _, i2 := range b2.Instrs {
										c2, ok := i2.(*ssa.Call)
										if !ok {
											continue
										}
										f2 := c2.Common().StaticCallee()
										if f2 == nil || len(c2.Common().Args) == 0 || !(strings.HasPrefix(f2.Name(), "Store") || strings.HasPrefix(f2.Name(), "Swap") || strings.HasPrefix(f2.Name(), "CompareAndSwap")) {
											continue
										}
										if !(pkgPathOf(f2) == "sync/atomic" || (f2.Signature.Recv() != nil && isSyncType(f2.Signature.Recv().Type()))) {
											continue
										}
										cur := s.root(c2.Common().Args[0])
										for k := 0; k < 6; k++ {
											u, isLoad := cur.(*ssa.UnOp)
											if !isLoad || u.Op != token.MUL {
												break
											}
											cur = s.root(u.X)
										}
										if cur != ssa.Value(atomicCell[ld]) {
											continue
										}
										shared := false
										for l := range ls[ld] {
											if ls[ins][l] && ls2[i2][l] {
												shared = true
											}
										}
										if !shared {
											ok2 = false
											note = fmt.Sprintf("%s stores into %s (%s) outside the lock under which %s reads it and delivers the combination: two stores can precede either delivery", funcKey(fn2), cellName(atomicCell[ld]), pc.pos(i2.Pos()), funcKey(fn))
										}
									}
								}
							}
						}
						if !common {
							ok2 = false
							note = fmt.Sprintf("%s reads %s atomically (%s) and delivers what it read with no lock held since the reading (%s); the function runs in %d concurrent contexts, so a newer reading can reach the downstream first", funcKey(fn), cellName(atomicCell[ld]), pc.pos(ld.Pos()), pc.pos(ins.Pos()), len(inCtxs[fn]))
						}
					}
					for _, vt := range via {
						if len(inCtxs[fn]) < 2 {
							continue
						}
						relevant = true
						if !s.handedOver(fn, ls, ls[vt.at], ls[ins]) {
							ok2 = false
							note = fmt.Sprintf("%s delivers what a helper read from %s (%s) with no lock held from that call to the delivery (%s); the function runs in %d concurrent contexts, so a newer reading can reach the downstream first", funcKey(fn), cellName(vt.cell), pc.pos(vt.at.Pos()), pc.pos(ins.Pos()), len(inCtxs[fn]))
						}
					}
					if !relevant && len(inCtxs[fn]) < 2 {
						continue
					}
					pc.add(oprops, fmt.Sprintf("P11/%s/%s/delivery#%d-keeps-the-order-of-the-takes", s.Name, strings.TrimPrefix(funcKey(fn), funcKey(s.Top)), n),
						"a value taken from shared state under a lock by a function that runs in two or more concurrent contexts is delivered downstream before that lock is released (or under another lock that orders take and delivery)", ok2, note, pc.pos(ins.Pos()))
				}
			}
		}
	}
	if wantOrder {
		pc.p11bHandles(s, oprops11, inCtxs11, entryOf11, writes11)
	}
	if !wantRaces {
		return
	}
	// accesses per cell per context
	type cellAcc struct {
		byCtx map[string][]accessInfo
	}
	cells := map[*ssa.Alloc]*cellAcc{}
	rec := func(al *ssa.Alloc, ctx string, ai accessInfo) {
		// cells allocated by a callback or helper, or inside a loop, are fresh per invocation / iteration
		if al.Parent() != s.Subscribe || inLoop(al) {
			return
		}
		ca := cells[al]
		if ca == nil {
			ca = &cellAcc{byCtx: map[string][]accessInfo{}}
			cells[al] = ca
		}
		ca.byCtx[ctx] = append(ca.byCtx[ctx], ai)
	}
	for ci, cd := range ctxs {
		cname := fmt.Sprintf("%d:%s", ci, cd.name)
		for fn, entry := range cd.fns {
			ls := s.locksets(fn, entry)
			for _, b := range fn.Blocks {
				for _, ins := range b.Instrs {
					switch t := ins.(type) {
					case *ssa.UnOp:
						if t.Op == token.MUL {
							if al, ok := s.root(t.X).(*ssa.Alloc); ok {
								rec(al, cname, accessInfo{fn: fn, ins: ins, locks: ls[ins]})
							} else {
								// a pointer read back from an atomic cell: the cells whose addresses were published there
								for _, pal := range s.atomicPointees(t.X) {
									rec(pal, cname, accessInfo{fn: fn, ins: ins, locks: ls[ins]})
								}
							}
						}
					case *ssa.Store:
						if al, ok := s.root(t.Addr).(*ssa.Alloc); ok {
							rec(al, cname, accessInfo{fn: fn, ins: ins, write: true, locks: ls[ins]})
						}
					case *ssa.MapUpdate:
						if al := s.cellOf(t.Map); al != nil {
							rec(al, cname, accessInfo{fn: fn, ins: ins, write: true, locks: ls[ins]})
						}
					case *ssa.Range:
						// ranging over a map that was read out of a shared cell touches the map itself, wherever (and
						// under whichever lock) the cell was read: `pending := inners` under the lock, `for range pending` after it
						if _, isMap := t.X.Type().Underlying().(*types.Map); isMap {
							if al := s.cellOf(t.X); al != nil {
								rec(al, cname, accessInfo{fn: fn, ins: ins, locks: ls[ins]})
							}
						}
					case *ssa.Lookup:
						if _, isMap := t.X.Type().Underlying().(*types.Map); isMap {
							if al := s.cellOf(t.X); al != nil {
								rec(al, cname, accessInfo{fn: fn, ins: ins, locks: ls[ins]})
							}
						}
					case *ssa.Call:
						c := t.Common()
						if bi, ok := c.Value.(*ssa.Builtin); ok && len(c.Args) > 0 && (bi.Name() == "delete" || bi.Name() == "len") {
							if _, isMap := c.Args[0].Type().Underlying().(*types.Map); isMap {
								if al := s.cellOf(c.Args[0]); al != nil {
									rec(al, cname, accessInfo{fn: fn, ins: ins, write: bi.Name() == "delete", locks: ls[ins]})
								}
							}
						}
						if f := c.StaticCallee(); f != nil && len(c.Args) > 0 {
							if al, ok := s.root(c.Args[0]).(*ssa.Alloc); ok {
								if pkgPathOf(f) == "sync/atomic" {
									rec(al, cname, accessInfo{fn: fn, ins: ins, atomic: true, write: isAtomicWriter(f), locks: ls[ins]})
								} else if f.Signature.Recv() != nil && isSyncType(f.Signature.Recv().Type()) {
									rec(al, cname, accessInfo{fn: fn, ins: ins, method: true, locks: ls[ins]})
								}
							}
						}
					}
				}
			}
		}
	}
	var als []*ssa.Alloc
	for al := range cells {
		als = append(als, al)
	}
	sort.Slice(als, func(i, j int) bool { return cellName(als[i]) < cellName(als[j]) })
	exempt, _ := pc.annotated(s.Name, "assume-confined")
	for _, al := range als {
		ca := cells[al]
		if len(ca.byCtx) < 2 {
			continue // confined to one context
		}
		name := cellName(al)
		// sync-typed cells (mutexes, sync.Map, atomic.Value, Once): fine unless re-assigned
		syncTyped := false
		if pt, ok := al.Type().Underlying().(*types.Pointer); ok {
			syncTyped = isSyncType(pt.Elem())
		}
		// published-before: a write that dominates the creation of every other context touching the cell
		ctxByName := map[string]*ctxDef{}
		for ci, cd := range ctxs {
			ctxByName[fmt.Sprintf("%d:%s", ci, cd.name)] = cd
		}
		for cname, accs := range ca.byCtx {
			var kept []accessInfo
			for _, a := range accs {
				if a.write && !a.atomic {
					before := true
					for other := range ca.byCtx {
						if other == cname {
							continue
						}
						od := ctxByName[other]
						if od == nil || od.created == nil || !precedes(a.ins, od.created) {
							before = false
						}
					}
					if before {
						continue
					}
				}
				kept = append(kept, a)
			}
			ca.byCtx[cname] = kept
		}
		var common map[ssa.Value]bool
		allAtomic := true
		anyWrite := false
		var bad []string
		for cname, accs := range ca.byCtx {
			for _, a := range accs {
				if a.method {
					continue
				}
				if a.write {
					anyWrite = true
				}
				if a.atomic {
					continue
				}
				allAtomic = false
				if common == nil {
					common = map[ssa.Value]bool{}
					for k := range a.locks {
						common[k] = true
					}
				} else {
					for k := range common {
						if !a.locks[k] {
							delete(common, k)
						}
					}
				}
				if len(a.locks) == 0 {
					kind := "reads"
					if a.write {
						kind = "writes"
					}
					bad = append(bad, fmt.Sprintf("%s %s it without a lock (%s)", strings.SplitN(cname, ":", 2)[1], kind, pc.pos(a.ins.Pos())))
				}
			}
		}
		ok := false
		switch {
		case !anyWrite:
			ok = true // only read after publication
		case allAtomic:
			ok = true
		case len(common) > 0:
			ok = true
		}
		if syncTyped && !anyWrite {
			ok = true
		}
		// cells written only by the subscribe body before the contexts exist are not seen here (the body is not a context)
		if !ok && exempt != "" && strings.Contains(" "+strings.SplitN(exempt, ":", 2)[0]+" ", " "+name+" ") {
			ok = true
		}
		sort.Strings(bad)
		pc.add(props, fmt.Sprintf("P7/%s/cell:%s", s.Name, name),
			"a cell reached from two concurrent contexts (callbacks of different subscriptions, goroutines, timers, the teardown) is accessed atomically or always under one common lock", ok,
			strings.Join(dedup(bad), "; "), pc.pos(al.Pos()))
	}
}


// handedOver: the take under the locks `atTake` is ordered with a later instruction by a lock chain: some lock held at
// `at` was acquired (in the same function) while a lock of the take was still held - Delay's "lock the delivery mutex,
// then release the queue mutex".
func (s *pSite) handedOver(fn *ssa.Function, ls map[ssa.Instruction]map[ssa.Value]bool, atTake, atUse map[ssa.Value]bool) bool {
	for l := range atTake {
		if atUse[l] {
			return true
		}
	}
	for _, b := range fn.Blocks {
		for _, ins := range b.Instrs {
			call, ok := ins.(*ssa.Call)
			if !ok {
				continue
			}
			l2, op := s.lockOp(call.Common())
			if l2 == nil || op != "lock" || !atUse[l2] {
				continue
			}
			for l := range atTake {
				if ls[ins][l] {
					return true
				}
			}
		}
	}
	return false
}

// p11bHandles: an observer-like object (a window or group subject) taken from a shared cell under a lock and used after
// the lock was released, while another context replaces the content of that cell: the other context may have completed
// or replaced the object in between, so the value sent to it is lost or a freshly delivered object is never completed.
func (pc *pCtx) p11bHandles(s *pSite, props []string, inCtxs map[*ssa.Function]map[string]bool, entryOf map[*ssa.Function]map[ssa.Value]bool, writes map[string]map[*ssa.Alloc]bool) {
	var fns []*ssa.Function
	for fn := range inCtxs {
		fns = append(fns, fn)
	}
	sort.Slice(fns, func(i, j int) bool { return funcKey(fns[i]) < funcKey(fns[j]) })
	replacedElsewhere := func(fn *ssa.Function, al *ssa.Alloc) bool {
		for cn, ws := range writes {
			if ws[al] && (!inCtxs[fn][cn] || len(inCtxs[fn]) >= 2) {
				return true
			}
		}
		return false
	}
	for _, fn := range fns {
		ls := s.locksets(fn, entryOf[fn])
		n := 0
		for _, b := range fn.Blocks {
			for _, ins := range b.Instrs {
				call, ok := ins.(*ssa.Call)
				if !ok || !call.Common().IsInvoke() || s.isDest(call.Common().Value) {
					continue
				}
				m := call.Common().Method.Name()
				if !(strings.HasPrefix(m, "Next") || strings.HasPrefix(m, "Error") || strings.HasPrefix(m, "Complete")) || !hasMethod(call.Common().Value.Type(), "NextWithContext") {
					continue
				}
				// the shared cells the receiver was loaded from
				var loads []*ssa.UnOp
				seen := map[ssa.Value]bool{}
				var back func(v ssa.Value, d int)
				back = func(v ssa.Value, d int) {
					if v == nil || seen[v] || d > 10 {
						return
					}
					seen[v] = true
					switch t := v.(type) {
					case *ssa.UnOp:
						if t.Op == token.MUL {
							if al, ok := s.root(t.X).(*ssa.Alloc); ok && al.Parent() == s.Subscribe && !inLoop(al) {
								loads = append(loads, t)
								return
							}
						}
						back(t.X, d+1)
					case *ssa.Phi:
						for _, e := range t.Edges {
							back(e, d+1)
						}
					case *ssa.ChangeInterface:
						back(t.X, d+1)
					case *ssa.MakeInterface:
						back(t.X, d+1)
					case *ssa.TypeAssert:
						back(t.X, d+1)
					case *ssa.ChangeType:
						back(t.X, d+1)
					case *ssa.Extract:
						back(t.Tuple, d+1)
					}
				}
				back(call.Common().Value, 0)
				relevant := false
				ok2 := true
				note := ""
				for _, ld := range loads {
					al, _ := s.root(ld.X).(*ssa.Alloc)
					if ld.Parent() != fn || al == nil || len(ls[ld]) == 0 || !replacedElsewhere(fn, al) {
						continue
					}
					relevant = true
					common := s.handedOver(fn, ls, ls[ld], ls[ins])
					if !common {
						ok2 = false
						note = fmt.Sprintf("%s takes %s under a lock (%s) and calls %s on it after the lock is released (%s); another context replaces %s, so the object may have been completed or replaced in between", funcKey(fn), cellName(al), pc.pos(ld.Pos()), m, pc.pos(ins.Pos()), cellName(al))
					}
				}
				if !relevant {
					continue
				}
				n++
				pc.add(props, fmt.Sprintf("P11/%s/%s/use#%d-of-a-shared-handle-is-ordered-with-its-replacement", s.Name, strings.TrimPrefix(funcKey(fn), funcKey(s.Top)), n),
					"an observer-like object taken from a shared cell under a lock is used before that lock (or another lock held since the take) is released, when another context replaces the content of the cell", ok2, note, pc.pos(ins.Pos()))
			}
		}
	}
}


// atomicPointees: v is a pointer obtained from Load() of an atomic.Value / atomic.Pointer cell of the site (possibly
// through a type assertion); the result lists the cells whose addresses are stored into that atomic cell anywhere in
// the site. Reading through the pointer reads one of those cells - without any lock the publication does not give.
func (s *pSite) atomicPointees(v ssa.Value) []*ssa.Alloc {
	cur := v
	for i := 0; i < 4; i++ {
		switch t := cur.(type) {
		case *ssa.TypeAssert:
			cur = t.X
			continue
		case *ssa.ChangeInterface:
			cur = t.X
			continue
		case *ssa.Extract:
			cur = t.Tuple
			continue
		}
		break
	}
	c, ok := cur.(*ssa.Call)
	if !ok {
		return nil
	}
	f := c.Common().StaticCallee()
	if f == nil || pkgPathOf(f) != "sync/atomic" || f.Signature.Recv() == nil || f.Name() != "Load" || len(c.Common().Args) != 1 {
		return nil
	}
	cell, ok := s.root(c.Common().Args[0]).(*ssa.Alloc)
	if !ok {
		return nil
	}
	var out []*ssa.Alloc
	for fn := range s.InTree {
		for _, b := range fn.Blocks {
			for _, ins := range b.Instrs {
				c2, ok := ins.(*ssa.Call)
				if !ok {
					continue
				}
				f2 := c2.Common().StaticCallee()
				if f2 == nil || pkgPathOf(f2) != "sync/atomic" || f2.Name() != "Store" || len(c2.Common().Args) != 2 || s.root(c2.Common().Args[0]) != ssa.Value(cell) {
					continue
				}
				stored := c2.Common().Args[1]
				if mi, ok := stored.(*ssa.MakeInterface); ok {
					stored = mi.X
				}
				if al, ok := s.root(stored).(*ssa.Alloc); ok {
					out = append(out, al)
				}
			}
		}
	}
	return out
}

// viaTake: a reading of a shared cell made inside a helper closure whose result the caller delivers; `at` is the call.
type viaTake struct {
	at     *ssa.Call
	cell   *ssa.Alloc
	atomic bool
}
