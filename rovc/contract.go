package main

import (
	"bufio"
	"fmt"
	"go/ast"
	"go/types"
	"go/parser"
	"go/token"
	"os"
	"path/filepath"
	"regexp"
	"sort"
	"strconv"
	"strings"
)

// ---------------------------------------------------------------------------
// Contract files: comment-only Go files `verif_contracts*.go` (build tag verif)
// whose `//@` lines are grouped in blocks:
//
//	//@ type <Name>            -- data-structure contract
//	//@ func <funcKey>         -- function contract
//	//@ operator <Name>        -- machine contract of an operator
//	//@ loop <funcKey>#<n>     -- loop contract
//	//@ pure <funcKey>         -- callee treated as an uninterpreted function
//
// ---------------------------------------------------------------------------

type Clause struct {
	Kind  string // first word
	Label string // optional [label]
	Text  string // rest of the line
	Line  int
	File  string
}

type Block struct {
	Kind    string // type | func | operator | loop | pure | lemma
	Name    string
	Clauses []Clause
	File    string
	Line    int
	Pkg     string // import path of the package the file belongs to
}

func (b *Block) all(kind string) []Clause {
	var out []Clause
	for _, c := range b.Clauses {
		if c.Kind == kind {
			out = append(out, c)
		}
	}
	return out
}

func (b *Block) first(kind string) *Clause {
	for i := range b.Clauses {
		if b.Clauses[i].Kind == kind {
			return &b.Clauses[i]
		}
	}
	return nil
}

func (b *Block) props() []string {
	var out []string
	for _, c := range b.all("props") {
		out = append(out, strings.Fields(c.Text)...)
	}
	return out
}

var blockKinds = map[string]bool{"type": true, "func": true, "operator": true, "loop": true, "pure": true, "lemma": true, "site": true}
var labelRe = regexp.MustCompile(`^\[([^\]]+)\]\s*(.*)$`)

func parseContractFile(path, pkg string) ([]*Block, error) {
	f, err := os.Open(path)
	if err != nil {
		return nil, err
	}
	defer f.Close()
	var blocks []*Block
	var cur *Block
	sc := bufio.NewScanner(f)
	sc.Buffer(make([]byte, 1<<20), 1<<20)
	ln := 0
	for sc.Scan() {
		ln++
		line := sc.Text()
		if !strings.HasPrefix(line, "//@") {
			continue
		}
		body := strings.TrimPrefix(line, "//@")
		if strings.TrimSpace(body) == "" {
			continue
		}
		indented := strings.HasPrefix(body, "  ") || strings.HasPrefix(body, "\t")
		text := strings.TrimSpace(body)
		if strings.HasPrefix(text, "#") || strings.HasPrefix(text, "--") {
			continue
		}
		word, rest := splitWord(text)
		if !indented && blockKinds[word] {
			cur = &Block{Kind: word, Name: strings.TrimSpace(rest), File: path, Line: ln, Pkg: pkg}
			blocks = append(blocks, cur)
			continue
		}
		if cur == nil {
			return nil, fmt.Errorf("%s:%d: clause outside a block", path, ln)
		}
		if word == "+" && len(cur.Clauses) > 0 {
			// continuation line
			cur.Clauses[len(cur.Clauses)-1].Text += " " + rest
			continue
		}
		c := Clause{Kind: word, Text: rest, Line: ln, File: path}
		if m := labelRe.FindStringSubmatch(rest); m != nil {
			c.Label = m[1]
			c.Text = m[2]
		}
		cur.Clauses = append(cur.Clauses, c)
	}
	return blocks, sc.Err()
}

func splitWord(s string) (string, string) {
	s = strings.TrimSpace(s)
	i := strings.IndexAny(s, " \t")
	if i < 0 {
		return s, ""
	}
	return s[:i], strings.TrimSpace(s[i+1:])
}

// loadContracts finds every verif_contracts*.go file in the directories of the loaded ro packages.
func loadContracts(w *World) ([]*Block, []string, error) {
	var all []*Block
	var files []string
	seen := map[string]bool{}
	var paths []string
	for p := range w.ByPath {
		paths = append(paths, p)
	}
	sort.Strings(paths)
	for _, p := range paths {
		pk := w.ByPath[p]
		if len(pk.GoFiles) == 0 {
			continue
		}
		dir := filepath.Dir(pk.GoFiles[0])
		if seen[dir] {
			continue
		}
		seen[dir] = true
		ms, _ := filepath.Glob(filepath.Join(dir, "verif_contracts*.go"))
		sort.Strings(ms)
		for _, m := range ms {
			bs, err := parseContractFile(m, p)
			if err != nil {
				return nil, nil, err
			}
			all = append(all, bs...)
			files = append(files, m)
		}
	}
	return all, files, nil
}

// ---------------------------------------------------------------------------
// Expressions
// ---------------------------------------------------------------------------

// splitTop splits s on a top-level separator (outside parentheses/brackets).
func splitTop(s, sep string) []string {
	var out []string
	depth := 0
	last := 0
	for i := 0; i < len(s); i++ {
		switch s[i] {
		case '(', '[', '{':
			depth++
		case ')', ']', '}':
			depth--
		}
		if depth == 0 && strings.HasPrefix(s[i:], sep) {
			out = append(out, s[last:i])
			last = i + len(sep)
			i += len(sep) - 1
		}
	}
	out = append(out, s[last:])
	return out
}

func parseSpecExpr(s string) (ast.Expr, error) {
	s = strings.TrimSpace(s)
	// implication is right associative and binds weakest
	parts := splitTop(s, "==>")
	if len(parts) > 1 {
		l := strings.TrimSpace(parts[0])
		r := strings.TrimSpace(strings.Join(parts[1:], "==>"))
		le, err := parseSpecExpr(l)
		if err != nil {
			return nil, err
		}
		re, err := parseSpecExpr(r)
		if err != nil {
			return nil, err
		}
		return &ast.CallExpr{Fun: ast.NewIdent("imp"), Args: []ast.Expr{le, re}}, nil
	}
	// primes: n' -> n__post
	s = regexp.MustCompile(`([A-Za-z_][A-Za-z0-9_]*)'`).ReplaceAllString(s, "${1}__post")
	e, err := parser.ParseExpr(s)
	if err != nil {
		return nil, fmt.Errorf("cannot parse %q: %v", s, err)
	}
	return e, nil
}

// Env is the evaluation environment of contract expressions.
type Env struct {
	X      *Exec
	St     *State
	Vars   map[string]SVal
	Old    bool
	Recv   string            // receiver variable name of the function under contract
	Fields map[string]bool   // bare names resolved as recv.<name>
	Events []Event           // events considered by count()/trace()
	Track  func(string) bool // which events trace() looks at
	Alias  map[string]string // event-constructor aliases: Next -> destination.NextWithContext
	Exit   *Exit
	UserFn map[string]bool // names of user-supplied function parameters (name_0(args) is their i-th result)
	FieldType func(string) types.Type
	CellType  func(string) types.Type
	UserSig   map[string]*types.Signature
	Idents    map[string]bool // when set: the identifiers the function under contract can name (lock names are checked against it)
	PatSeen   map[string]bool // when set: event patterns of heldat / notheldat -> matched by some event on some path of the unit
}

// notePat records that a lock-discipline clause looked for pattern pat, and whether an event of this path matched it.
func (e *Env) notePat(pat string, matched bool) {
	if e.PatSeen == nil {
		return
	}
	if matched {
		e.PatSeen[pat] = true
	} else if _, ok := e.PatSeen[pat]; !ok {
		e.PatSeen[pat] = false
		if os.Getenv("ROVC_DEBUG") != "" {
			var ns []string
			for _, ev := range e.Events {
				ns = append(ns, ev.Name)
			}
			fmt.Fprintf(os.Stderr, "PAT %s first path events: %s\n", pat, strings.Join(ns, " "))
		}
	}
}

// lockKnown: a lock named by heldat / notheldat exists for this function (otherwise the clause does not bind: a renamed
// mutex must not read as "never held").
func (e *Env) lockKnown(name string) bool {
	if e.Idents == nil || e.Idents[name] || e.Fields[name] {
		return true
	}
	if i := strings.IndexAny(name, ".["); i > 0 && (e.Idents[name[:i]] || e.Fields[name[:i]] || name[:i] == e.Recv) {
		return true
	}
	for _, ev := range e.Events {
		for _, h := range ev.Held {
			if h == name {
				return true
			}
		}
	}
	return e.St != nil && e.St.Held[name]
}

func (e *Env) sub() *Env {
	c := *e
	return &c
}

func (e *Env) evalBool(expr string) (string, error) {
	ex, err := parseSpecExpr(expr)
	if err != nil {
		return "", err
	}
	v, err := e.eval(ex)
	if err != nil {
		return "", fmt.Errorf("%s: %v", expr, err)
	}
	if v.K != KBool {
		return "", fmt.Errorf("%s: not boolean", expr)
	}
	return v.T, nil
}

func (e *Env) heapVal(key string) (SVal, bool) {
	st := e.St
	if e.Old {
		if v, ok := st.Init[key]; ok {
			if v.K == KSlice && v.Snap == "" {
				// the contents of the slice before the callback
				if iv, ok := st.Init[v.Loc]; ok {
					v.Snap = iv.T
				} else if cur, ok := st.Heap[v.Loc]; ok && !st.Written[v.Loc] {
					v.Snap = cur.T
				}
			}
			return v, true
		}
		// never read or written: the current value is the initial one
		if v, ok := st.Heap[key]; ok && !st.Written[key] {
			return v, true
		}
		return SVal{}, false
	}
	if v, ok := st.Heap[key]; ok {
		return v, true
	}
	if v, ok := st.Init[key]; ok {
		return v, true
	}
	return SVal{}, false
}

// structVal reassembles a struct value stored field-wise under key.
func (e *Env) structVal(key string) (SVal, bool) {
	prefix := key + "."
	fields := map[string]SVal{}
	src := e.St.Heap
	if e.Old {
		src = e.St.Init
	}
	for k, v := range src {
		if strings.HasPrefix(k, prefix) && !strings.Contains(k[len(prefix):], ".") {
			fields[k[len(prefix):]] = v
		}
	}
	if len(fields) == 0 {
		return SVal{}, false
	}
	when := "new"
	if e.Old {
		when = "old"
	}
	return SVal{K: KStruct, Loc: key, Src: when}, true
}

func (e *Env) ident(name string) (SVal, error) {
	switch name {
	case "true":
		return mkBool("true"), nil
	case "false":
		return mkBool("false"), nil
	case "nil":
		return mkU("nil"), nil
	case "panics":
		if e.Exit != nil {
			return mkBool(boolLit(e.Exit.Kind == ExitPanic)), nil
		}
		return mkBool("false"), nil
	case "caught":
		return mkBool(boolLit(e.St.Named["caught"] == "true")), nil
	case "result":
		if e.Exit != nil && len(e.Exit.Results) > 0 {
			return e.Exit.Results[0], nil
		}
		return SVal{}, fmt.Errorf("no result on this path")
	}
	if strings.HasSuffix(name, "__post") {
		base := strings.TrimSuffix(name, "__post")
		if t, ok := e.St.Ghost[base]; ok {
			return e.ghostVal(base, t), nil
		}
		c := e.sub()
		c.Old = false
		return c.ident(base)
	}
	if v, ok := e.Vars[name]; ok {
		return v, nil
	}
	if v, ok := e.St.NamedV[name]; ok {
		return v, nil
	}
	if t, ok := e.St.Ghost[name]; ok {
		if e.Old {
			if t0, ok := e.St.Named["ghost0:"+name]; ok {
				return e.ghostVal(name, t0), nil
			}
		}
		return e.ghostVal(name, t), nil
	}
	if e.Fields[name] && e.Recv != "" {
		if v, ok := e.heapVal(e.Recv + "." + name); ok {
			return v, nil
		}
		return e.declareField(e.Recv + "." + name)
	}
	if v, ok := e.heapVal(name); ok {
		if v.K == KLoc && strings.HasSuffix(v.Loc, "^") {
			// a pointer to a scalar / slice cell: contracts name the cell it points to
			if pt, ok := v.GoT.Underlying().(*types.Pointer); ok {
				if dv, ok := e.heapVal(v.Loc); ok {
					return dv, nil
				}
				dv := e.X.load(e.St, v.Loc, pt.Elem(), token.NoPos)
				if e.Old {
					if iv, ok := e.heapVal(v.Loc); ok {
						return iv, nil
					}
				}
				return dv, nil
			}
		}
		return v, nil
	}
	if v, ok := e.structVal(name); ok {
		return v, nil
	}
	if e.CellType != nil {
		if t := e.CellType(name); t != nil {
			if _, isFunc := t.Underlying().(*types.Signature); !isFunc {
				v := e.X.load(e.St, name, t, token.NoPos)
				if e.Old {
					if iv, ok := e.heapVal(name); ok {
						return iv, nil
					}
				}
				return v, nil
			}
			return mkU(q(e.X.D.constOf(name, "U"))), nil
		}
	}
	if strings.HasPrefix(name, "global_") && len(name) > 7 {
		// a package-level variable of a dependency read by the code (io.EOF is written global_EOF)
		return e.X.load(e.St, "global:"+strings.TrimPrefix(name, "global_"), types.Universe.Lookup("error").Type(), token.NoPos), nil
	}
	if strings.HasPrefix(name, "Err") && len(name) > 3 {
		// package-level sentinel error
		return e.X.load(e.St, "global:"+name, types.Universe.Lookup("error").Type(), token.NoPos), nil
	}
	if strings.HasPrefix(name, "result") {
		if i, err := strconv.Atoi(strings.TrimPrefix(name, "result")); err == nil && e.Exit != nil && i < len(e.Exit.Results) {
			return e.Exit.Results[i], nil
		}
	}
	return SVal{}, fmt.Errorf("unknown identifier %s", name)
}

func (e *Env) ghostVal(name, term string) SVal {
	switch e.X.D.consts[strings.Trim(term, "|")] {
	case "Int":
		return mkInt(term)
	case "Bool":
		return mkBool(term)
	}
	if s, ok := e.St.Named["ghostsort:"+name]; ok {
		switch s {
		case "Int":
			return mkInt(term)
		case "Bool":
			return mkBool(term)
		}
	}
	return mkU(term)
}

// declareField: a receiver field mentioned by a contract but never touched on this path.
func (e *Env) declareField(key string) (SVal, error) {
	if v, ok := e.St.Init[key]; ok {
		return v, nil
	}
	if e.FieldType != nil && e.Recv != "" && strings.HasPrefix(key, e.Recv+".") {
		// untouched on this path: its value is the initial one, now and before
		if t := e.FieldType(strings.TrimPrefix(key, e.Recv+".")); t != nil {
			if _, isFunc := t.Underlying().(*types.Signature); !isFunc {
				return e.X.load(e.St, key, t, token.NoPos), nil
			}
		}
	}
	return SVal{}, fmt.Errorf("field %s not accessed on this path (declare its type with `field`)", key)
}

func (e *Env) eval(ex ast.Expr) (SVal, error) {
	switch ex := ex.(type) {
	case *ast.ParenExpr:
		return e.eval(ex.X)
	case *ast.Ident:
		return e.ident(ex.Name)
	case *ast.BasicLit:
		if ex.Kind == token.INT {
			n, _ := strconv.ParseInt(ex.Value, 0, 64)
			return mkInt(intLit(n)), nil
		}
		if ex.Kind == token.STRING {
			s, _ := strconv.Unquote(ex.Value)
			if s == "" {
				return mkU(q(e.X.D.constOf("str!empty", "U"))), nil
			}
			return mkU(q(e.X.D.constOf("str!"+s, "U"))), nil
		}
		return SVal{}, fmt.Errorf("literal %s", ex.Value)
	case *ast.SelectorExpr:
		// heap key path
		if path, ok := selectorPath(ex); ok {
			if v, ok := e.heapVal(path); ok {
				return v, nil
			}
			if v, ok := e.structVal(path); ok {
				return v, nil
			}
		}
		base, err := e.eval(ex.X)
		if err != nil {
			return SVal{}, err
		}
		if base.K == KLoc {
			if v, ok := e.heapVal(base.Loc + "." + ex.Sel.Name); ok {
				return v, nil
			}
			if v, ok := e.structVal(base.Loc + "." + ex.Sel.Name); ok {
				return v, nil
			}
			if e.St.Zero[keyBase(base.Loc)] {
				if base.GoT != nil {
					if st, ok := isStruct(derefType(base.GoT)); ok {
						found := false
						for i := 0; i < st.NumFields(); i++ {
							if st.Field(i).Name() == ex.Sel.Name {
								found = true
							}
						}
						if !found {
							return SVal{}, fmt.Errorf("contract does not bind: %s has no field %s", typeShort(derefType(base.GoT)), ex.Sel.Name)
						}
					}
				}
				return SVal{}, fmt.Errorf("field %s of fresh object never written on this path", ex.Sel.Name)
			}
			if base.Loc == e.Recv && e.FieldType != nil {
				if t := e.FieldType(ex.Sel.Name); t != nil {
					return e.X.load(e.St, base.Loc+"."+ex.Sel.Name, t, token.NoPos), nil
				}
			}
		}
		if base.K == KU {
			// a field of an object behind an untracked pointer (timer.C): the executor keeps it under <pointer>-><field>
			if v, ok := e.heapVal(provName(base) + "->" + ex.Sel.Name); ok {
				return v, nil
			}
			if base.GoT != nil {
				if st, ok := isStruct(derefType(base.GoT)); ok {
					for i := 0; i < st.NumFields(); i++ {
						if st.Field(i).Name() == ex.Sel.Name {
							return e.X.load(e.St, provName(base)+"->"+ex.Sel.Name, st.Field(i).Type(), token.NoPos), nil
						}
					}
				}
			}
		}
		if base.K == KStruct && base.Loc != "" {
			// lazily assembled struct: field by key, in the state (before / after) the struct was looked up in
			c := e.sub()
			c.Old = base.Src == "old"
			if v, ok := c.heapVal(base.Loc + "." + ex.Sel.Name); ok {
				return v, nil
			}
			if v, ok := c.structVal(base.Loc + "." + ex.Sel.Name); ok {
				return v, nil
			}
		}
		if base.K == KStruct {
			if s, ok := isStruct(base.GoT); ok {
				for i := 0; i < s.NumFields(); i++ {
					if s.Field(i).Name() == ex.Sel.Name && i < len(base.Elems) {
						return base.Elems[i], nil
					}
				}
			}
		}
		if base.K == KSlice && ex.Sel.Name == "len" {
			return mkInt(base.Len), nil
		}
		return SVal{}, fmt.Errorf("cannot select %s", ex.Sel.Name)
	case *ast.UnaryExpr:
		v, err := e.eval(ex.X)
		if err != nil {
			return SVal{}, err
		}
		switch ex.Op {
		case token.NOT:
			return mkBool(not(v.T)), nil
		case token.SUB:
			return mkInt("(- " + v.T + ")"), nil
		}
	case *ast.BinaryExpr:
		// short-circuit friendly: evaluate both
		a, err := e.eval(ex.X)
		if err != nil {
			return SVal{}, err
		}
		// lazy connectives: a literal left operand decides without evaluating the right one
		if ex.Op == token.LAND && a.K == KBool && a.T == "false" {
			return mkBool("false"), nil
		}
		if ex.Op == token.LOR && a.K == KBool && a.T == "true" {
			return mkBool("true"), nil
		}
		b, err := e.eval(ex.Y)
		if err != nil {
			return SVal{}, err
		}
		// sort discipline (a contract that compares an observable with a counter is ill-formed: reported, never sent to a solver)
		switch ex.Op {
		case token.LAND, token.LOR:
			if a.K != KBool || b.K != KBool {
				return SVal{}, fmt.Errorf("sort mismatch: %s applied to non-boolean operands", ex.Op)
			}
		case token.LSS, token.LEQ, token.GTR, token.GEQ, token.ADD, token.SUB, token.MUL, token.REM, token.QUO:
			if a.K != KInt || b.K != KInt {
				return SVal{}, fmt.Errorf("sort mismatch: %s applied to non-integer operands", ex.Op)
			}
		case token.EQL, token.NEQ:
			if (a.K == KInt) != (b.K == KInt) || (a.K == KBool) != (b.K == KBool) {
				return SVal{}, fmt.Errorf("sort mismatch: %s between values of different sorts", ex.Op)
			}
		}
		switch ex.Op {
		case token.LAND:
			return mkBool(and(a.T, b.T)), nil
		case token.LOR:
			return mkBool(or(a.T, b.T)), nil
		case token.EQL:
			return mkBool(e.X.valEq(e.St, a, b)), nil
		case token.NEQ:
			return mkBool(not(e.X.valEq(e.St, a, b))), nil
		case token.LSS:
			return mkBool("(< " + a.T + " " + b.T + ")"), nil
		case token.LEQ:
			return mkBool("(<= " + a.T + " " + b.T + ")"), nil
		case token.GTR:
			return mkBool("(> " + a.T + " " + b.T + ")"), nil
		case token.GEQ:
			return mkBool("(>= " + a.T + " " + b.T + ")"), nil
		case token.ADD:
			return mkInt("(+ " + a.T + " " + b.T + ")"), nil
		case token.SUB:
			return mkInt("(- " + a.T + " " + b.T + ")"), nil
		case token.MUL:
			return mkInt("(* " + a.T + " " + b.T + ")"), nil
		case token.REM:
			return mkInt("(mod " + a.T + " " + b.T + ")"), nil
		case token.QUO:
			return mkInt("(div " + a.T + " " + b.T + ")"), nil
		}
	case *ast.IndexExpr:
		base, err := e.eval(ex.X)
		if err != nil {
			return SVal{}, err
		}
		idx, err := e.eval(ex.Index)
		if err != nil {
			return SVal{}, err
		}
		if base.K == KSlice {
			arr := base.Snap
			if arr == "" {
				arr = e.X.arrTerm(e.St, base)
			}
			var et = base.GoT
			if sl, ok := isSlice(base.GoT); ok {
				et = sl.Elem()
			}
			return e.X.unbox(e.St, "(select "+arr+" "+plus(base.Off, idx.T)+")", et), nil
		}
		return SVal{}, fmt.Errorf("index on non-slice")
	case *ast.CallExpr:
		return e.callExpr(ex)
	}
	return SVal{}, fmt.Errorf("unsupported expression %T", ex)
}

func selectorPath(ex ast.Expr) (string, bool) {
	switch ex := ex.(type) {
	case *ast.Ident:
		return ex.Name, true
	case *ast.SelectorExpr:
		p, ok := selectorPath(ex.X)
		if !ok {
			return "", false
		}
		return p + "." + ex.Sel.Name, true
	}
	return "", false
}

func exprString(ex ast.Expr) string {
	if p, ok := selectorPath(ex); ok {
		return p
	}
	if bl, ok := ex.(*ast.BasicLit); ok {
		return bl.Value
	}
	return fmt.Sprint(ex)
}

func (e *Env) callExpr(ex *ast.CallExpr) (SVal, error) {
	fname := exprString(ex.Fun)
	argStr := func(i int) string {
		if i < len(ex.Args) {
			return exprString(ex.Args[i])
		}
		return ""
	}
	switch fname {
	case "imp":
		a, err := e.eval(ex.Args[0])
		if err != nil {
			return SVal{}, err
		}
		if a.T == "false" {
			return mkBool("true"), nil
		}
		b, err := e.eval(ex.Args[1])
		if err != nil {
			// a consequent that names something the function no longer has is a binding problem of the contract, not
			// a property of this path (a renamed loop variable must not read as "the clause fails")
			if strings.Contains(err.Error(), "unknown identifier") {
				return SVal{}, err
			}
			// the consequent cannot even be stated on this path (it names an event that did not happen):
			// the antecedent must then be impossible here
			return mkBool(imp(a.T, "false")), nil
		}
		return mkBool(imp(a.T, b.T)), nil
	case "iff":
		a, err := e.eval(ex.Args[0])
		if err != nil {
			return SVal{}, err
		}
		b, err := e.eval(ex.Args[1])
		if err != nil {
			return SVal{}, err
		}
		return mkBool(eq(a.T, b.T)), nil
	case "ite":
		c, err := e.eval(ex.Args[0])
		if err != nil {
			return SVal{}, err
		}
		if c.T == "true" {
			return e.eval(ex.Args[1])
		}
		if c.T == "false" {
			return e.eval(ex.Args[2])
		}
		a, err := e.eval(ex.Args[1])
		if err != nil {
			return SVal{}, err
		}
		b, err := e.eval(ex.Args[2])
		if err != nil {
			return SVal{}, err
		}
		r := a
		r.T = ite(c.T, e.X.termOf(e.St, a), e.X.termOf(e.St, b))
		return r, nil
	case "old":
		c := e.sub()
		c.Old = true
		v, err := c.eval(ex.Args[0])
		if err == nil && v.K == KSlice && v.Snap == "" {
			// the contents of a slice (parameter) as they were on entry
			if iv, ok := e.St.Init[v.Loc]; ok {
				v.Snap = iv.T
			}
		}
		return v, err
	case "held":
		return mkBool(boolLit(e.St.Held[argStr(0)])), nil
	case "asserted":
		if v, ok := e.St.NamedV["asserted("+argStr(0)+")"]; ok {
			return v, nil
		}
		return SVal{}, fmt.Errorf("asserted(%s): no such type assertion on this path", argStr(0))
	case "loaded", "atlock", "atunlock", "panicval":
		key := fname + "(" + argStr(0) + ")"
		if v, ok := e.St.NamedV[key]; ok {
			return v, nil
		}
		if (fname == "atlock" || fname == "atunlock") && e.FieldType != nil {
			// the lock was not taken on this path: the value is unconstrained (conservative)
			if t := e.FieldType(argStr(0)); t != nil {
				v := e.X.symbolic(e.St, e.X.D.fresh("undef@"+key, "U")+"v", t)
				e.St.NamedV[key] = v
				return v, nil
			}
		}
		if t, ok := e.St.Named[key]; ok {
			switch e.St.Named["sort:"+key] {
			case "Bool":
				return mkBool(t), nil
			case "U":
				return mkU(t), nil
			}
			return mkInt(t), nil
		}
		return SVal{}, fmt.Errorf("%s undefined on this path", key)
	case "isnilptr":
		// isnilptr(p): the pointer held by cell / parameter p itself is nil (a bare p names the cell it points to)
		name := argStr(0)
		v, ok := e.Vars[name]
		if !ok {
			v, ok = e.heapVal(name)
		}
		if !ok && e.CellType != nil {
			if t := e.CellType(name); t != nil {
				v, ok = e.X.load(e.St, name, t, token.NoPos), true
			}
		}
		if !ok {
			return SVal{}, fmt.Errorf("unknown identifier %s (a pointer named by isnilptr)", name)
		}
		switch {
		case v.K == KLoc && v.NilC != "":
			return mkBool(v.NilC), nil
		case v.K == KLoc:
			return mkBool("false"), nil
		case v.K == KU:
			return mkBool(eq(v.T, "nil")), nil
		}
		return SVal{}, fmt.Errorf("isnilptr(%s): not a pointer", name)
	case "did_store":
		// did_store(cell): an atomic Store into the cell was made on this path
		_, ok := e.St.Named["stored("+argStr(0)+")"]
		return mkBool(boolLit(ok)), nil
	case "did_load":
		_, ok := e.St.Named["loaded("+argStr(0)+")"]
		return mkBool(boolLit(ok)), nil
	case "tried":
		_, ok := e.St.Named["trylock("+argStr(0)+")"]
		return mkBool(boolLit(ok)), nil
	case "cas_ok", "trylock", "panicked":
		return mkBool(boolLit(e.St.Named[fname+"("+argStr(0)+")"] == "true")), nil
	case "cas_failed":
		return mkBool(boolLit(e.St.Named["cas_ok("+argStr(0)+")"] == "false")), nil
	case "count":
		n := 0
		pat := e.resolveEventName(argStr(0))
		for _, ev := range e.Events {
			if eventNameMatch(pat, ev.Name) {
				n++
			}
		}
		return mkInt(fmt.Sprint(n)), nil
	case "newobject":
		// newobject(x): x is the address of an object this very execution allocated (a constructor hands out a new object per call)
		v, err := e.eval(ex.Args[0])
		if err != nil {
			return SVal{}, err
		}
		return mkBool(boolLit(v.K == KLoc && strings.HasPrefix(v.Loc, "new#"))), nil
	case "called":
		pat := e.resolveEventName(argStr(0))
		if os.Getenv("ROVC_DEBUG") == "2" {
			var ns []string
			for _, ev := range e.Events {
				ns = append(ns, ev.Name)
			}
			fmt.Fprintf(os.Stderr, "CALLED %s in [%s]\n", pat, strings.Join(ns, " "))
		}
		for _, ev := range e.Events {
			if eventNameMatch(pat, ev.Name) {
				return mkBool("true"), nil
			}
		}
		return mkBool("false"), nil
	case "trace":
		return e.traceMatch(ex.Args)
	case "before":
		// before(A, B): every A event precedes every B event on this path (and both exist if required elsewhere)
		pa, pb := e.resolveEventName(argStr(0)), e.resolveEventName(argStr(1))
		lastA, firstB := -1, -1
		for i, ev := range e.Events {
			if eventNameMatch(pa, ev.Name) {
				lastA = i
			}
			if eventNameMatch(pb, ev.Name) && firstB < 0 {
				firstB = i
			}
		}
		if lastA < 0 || firstB < 0 {
			return mkBool("true"), nil
		}
		return mkBool(boolLit(lastA < firstB)), nil
	case "watches":
		// watches(EventPattern, ch): the (unique) matching select / poll event has ch among its channels, in any position
		pat := e.resolveEventName(argStr(0))
		want, err := e.eval(ex.Args[1])
		if err != nil {
			return SVal{}, err
		}
		for i := range e.Events {
			if eventNameMatch(pat, e.Events[i].Name) {
				var alts []string
				for _, a := range e.Events[i].Args {
					alts = append(alts, e.X.valEq(e.St, a, want))
				}
				if len(alts) == 0 {
					return mkBool("false"), nil
				}
				return mkBool(or(alts...)), nil
			}
		}
		return SVal{}, fmt.Errorf("watches(%s): no such event on this path", pat)
	case "chosen":
		// chosen(EventPattern, ch): the (unique) matching select event proceeded with its case on channel ch
		pat := e.resolveEventName(argStr(0))
		want, err := e.eval(ex.Args[1])
		if err != nil {
			return SVal{}, err
		}
		for i := range e.Events {
			if eventNameMatch(pat, e.Events[i].Name) {
				if len(e.Events[i].Res) == 0 {
					return SVal{}, fmt.Errorf("chosen(%s): the event records no chosen case", pat)
				}
				var alts []string
				for j, a := range e.Events[i].Args {
					if chanElemsDiffer(a.GoT, want.GoT) {
						continue // channels of different element types are different channels
					}
					alts = append(alts, and(eq(e.Events[i].Res[0].T, intLit(int64(j))), e.X.valEq(e.St, a, want)))
				}
				if len(alts) == 0 {
					return mkBool("false"), nil
				}
				return mkBool(or(alts...)), nil
			}
		}
		return SVal{}, fmt.Errorf("chosen(%s): no such event on this path", pat)
	case "atevent":
		// atevent(EventPattern, cell): the value of an operator cell when the (first) matching downstream call was made
		pat := e.resolveEventName(argStr(0))
		for i := range e.Events {
			if eventNameMatch(pat, e.Events[i].Name) {
				if v, ok := e.Events[i].Cells[argStr(1)]; ok {
					return v, nil
				}
				return SVal{}, fmt.Errorf("atevent(%s, %s): unknown identifier %s", pat, argStr(1), argStr(1))
			}
		}
		return SVal{}, fmt.Errorf("atevent(%s): no such event on this path", pat)
	case "heldat":
		// heldat(lock, EventPattern): the lock is held at every matching event
		if !e.lockKnown(argStr(0)) {
			return SVal{}, fmt.Errorf("unknown identifier %s (a lock named by heldat)", argStr(0))
		}
		pat := e.resolveEventName(argStr(1))
		e.notePat(pat, false)
		for _, ev := range e.Events {
			if eventNameMatch(pat, ev.Name) {
				e.notePat(pat, true)
				ok := false
				for _, h := range ev.Held {
					if h == argStr(0) {
						ok = true
					}
				}
				if !ok {
					return mkBool("false"), nil
				}
			}
		}
		return mkBool("true"), nil
	case "notheldat":
		if !e.lockKnown(argStr(0)) {
			return SVal{}, fmt.Errorf("unknown identifier %s (a lock named by notheldat)", argStr(0))
		}
		pat := e.resolveEventName(argStr(1))
		e.notePat(pat, false)
		for _, ev := range e.Events {
			if eventNameMatch(pat, ev.Name) {
				e.notePat(pat, true)
				for _, h := range ev.Held {
					if h == argStr(0) {
						return mkBool("false"), nil
					}
				}
			}
		}
		return mkBool("true"), nil
	case "arg":
		// arg(EventPattern, i): i-th argument of the unique matching event
		pat := e.resolveEventName(argStr(0))
		idx, _ := strconv.Atoi(argStr(1))
		var found *Event
		for i := range e.Events {
			if eventNameMatch(pat, e.Events[i].Name) {
				if found != nil {
					return SVal{}, fmt.Errorf("arg(%s): several events", pat)
				}
				found = &e.Events[i]
			}
		}
		if found == nil || idx >= len(found.Args) {
			return SVal{}, fmt.Errorf("arg(%s,%d): no such event on this path", pat, idx)
		}
		return found.Args[idx], nil
	case "res":
		pat := e.resolveEventName(argStr(0))
		idx := 0
		if len(ex.Args) > 1 {
			idx, _ = strconv.Atoi(argStr(1))
		}
		for i := range e.Events {
			if eventNameMatch(pat, e.Events[i].Name) && idx < len(e.Events[i].Res) {
				return e.Events[i].Res[idx], nil
			}
		}
		return SVal{}, fmt.Errorf("res(%s): no such event on this path", pat)
	case "forall":
		// forall(j, lo, hi, body): body holds for every integer j with lo <= j < hi
		if len(ex.Args) != 4 {
			return SVal{}, fmt.Errorf("forall(j, lo, hi, body)")
		}
		id, ok := ex.Args[0].(*ast.Ident)
		if !ok {
			return SVal{}, fmt.Errorf("forall: first argument must be a variable name")
		}
		lo, err := e.eval(ex.Args[1])
		if err != nil {
			return SVal{}, err
		}
		hi, err := e.eval(ex.Args[2])
		if err != nil {
			return SVal{}, err
		}
		bound := "qv_" + id.Name
		c := e.sub()
		c.Vars = map[string]SVal{}
		for k, v := range e.Vars {
			c.Vars[k] = v
		}
		c.Vars[id.Name] = mkInt(bound)
		body, err := c.eval(ex.Args[3])
		if err != nil {
			return SVal{}, err
		}
		return mkBool("(forall ((" + bound + " Int)) (=> (and (<= " + lo.T + " " + bound + ") (< " + bound + " " + hi.T + ")) " + body.T + "))"), nil
	case "appended":
		// appended(s, v): the slice value s with v appended (contents compared by matchEvent)
		sv, err := e.eval(ex.Args[0])
		if err != nil {
			return SVal{}, err
		}
		v, err := e.eval(ex.Args[1])
		if err != nil {
			return SVal{}, err
		}
		if sv.K != KSlice {
			return SVal{}, fmt.Errorf("appended: not a slice")
		}
		arr := sv.Snap
		if arr == "" {
			arr = e.X.arrTerm(e.St, sv)
			if e.Old {
				if iv, ok := e.St.Init[sv.Loc]; ok {
					arr = iv.T
				}
			}
		}
		r := sv
		r.Snap = "(store " + arr + " " + plus(sv.Off, sv.Len) + " " + e.X.termOf(e.St, v) + ")"
		r.Len = plus(sv.Len, "1")
		r.Loc = "spec:" + r.Loc
		return r, nil
	case "atend":
		// atend(x): the loop variable x as it is when the current loop iteration ends (iteration clauses only)
		if id, ok := ex.Args[0].(*ast.Ident); ok && len(ex.Args) == 1 {
			if v, ok := e.St.NamedV["atend:"+id.Name]; ok {
				return v, nil
			}
			return SVal{}, fmt.Errorf("unknown identifier %s (a loop variable named by atend)", id.Name)
		}
		return SVal{}, fmt.Errorf("atend(variable)")
	case "atiter":
		// atiter(x): the cell x as it was when the current loop iteration started
		if id, ok := ex.Args[0].(*ast.Ident); ok && len(ex.Args) == 1 {
			if v, ok := e.St.NamedV["atiter:"+id.Name]; ok {
				return v, nil
			}
			return SVal{}, fmt.Errorf("atiter(%s): no such cell at the start of the iteration", id.Name)
		}
		return SVal{}, fmt.Errorf("atiter(cell)")
	case "deref":
		// deref(p): the value a pointer held by a cell points to (the executor's model of *p)
		if len(ex.Args) != 1 {
			return SVal{}, fmt.Errorf("deref(p)")
		}
		pv, err := e.eval(ex.Args[0])
		if err != nil {
			return SVal{}, err
		}
		var et types.Type
		if pv.GoT != nil {
			if pt, ok := pv.GoT.Underlying().(*types.Pointer); ok {
				et = pt.Elem()
			}
		}
		if pv.K == KLoc && et != nil {
			if hv, ok := e.heapVal(pv.Loc); ok {
				return hv, nil
			}
			return e.X.load(e.St, pv.Loc, et, token.NoPos), nil
		}
		if pv.K == KU && et != nil {
			t := e.X.D.app("deref!"+typeShort(et), []string{pv.T}, []string{"U"}, sortOf(et))
			return e.X.unbox(e.St, t, et), nil
		}
		return SVal{}, fmt.Errorf("deref: not a pointer of known type")
	case "has", "mapval":
		// has(m, k): the map m holds key k; mapval(m, k): the value stored under k. `m'` names the map after the callback.
		if len(ex.Args) != 2 {
			return SVal{}, fmt.Errorf("%s(m, k)", fname)
		}
		post := false
		if id, ok := ex.Args[0].(*ast.Ident); ok && strings.HasSuffix(id.Name, "__post") {
			post = true
		}
		mv, err := e.eval(ex.Args[0])
		if err != nil {
			return SVal{}, err
		}
		if mv.K != KMap {
			return SVal{}, fmt.Errorf("%s: not a map", fname)
		}
		kv, err := e.eval(ex.Args[1])
		if err != nil {
			return SVal{}, err
		}
		mt, _ := isMap(mv.GoT)
		vs := "U"
		var et types.Type
		if mt != nil {
			vs = sortOf(mt.Elem())
			et = mt.Elem()
		}
		has, vals := e.X.mapArrays(e.St, mv, vs)
		if e.Old && !post {
			// the map before the callback: the pre-state symbols (a map made inside the callback has none)
			if _, ok := e.X.D.consts[sanitize(mv.Loc+"#has")]; ok {
				has = q(e.X.D.constOf(mv.Loc+"#has", "(Array U Bool)"))
				vals = q(e.X.D.constOf(mv.Loc+"#val", "(Array U "+vs+")"))
			}
		}
		kt := e.X.keyTerm(e.St, kv)
		if fname == "has" {
			return mkBool("(select " + has + " " + kt + ")"), nil
		}
		t := "(select " + vals + " " + kt + ")"
		if et != nil {
			return e.X.unbox(e.St, t, et), nil
		}
		return mkU(t), nil
	case "keysadded", "mapsame", "mapput":
		// keysadded(m, k...): after the callback the map m holds exactly the keys it held before plus k...; mapsame(m): unchanged
		if len(ex.Args) < 1 {
			return SVal{}, fmt.Errorf("%s(m, ...)", fname)
		}
		c := e.sub()
		c.Old = false
		mv, err := c.eval(ex.Args[0])
		if err != nil {
			return SVal{}, err
		}
		if mv.K != KMap {
			return SVal{}, fmt.Errorf("%s: not a map", fname)
		}
		mt, _ := isMap(mv.GoT)
		vs := "U"
		if mt != nil {
			vs = sortOf(mt.Elem())
		}
		has, vals := e.X.mapArrays(e.St, mv, vs)
		has0 := q(e.X.D.constOf(mv.Loc+"#has", "(Array U Bool)"))
		vals0 := q(e.X.D.constOf(mv.Loc+"#val", "(Array U "+vs+")"))
		if fname == "mapsame" {
			return mkBool(and(eq(has, has0), eq(vals, vals0))), nil
		}
		if fname == "mapput" {
			// mapput(m, k, v): after the callback m is the map it was before with k bound to v (every other entry untouched)
			if len(ex.Args) != 3 {
				return SVal{}, fmt.Errorf("mapput(m, k, v)")
			}
			kv, err := e.eval(ex.Args[1])
			if err != nil {
				return SVal{}, err
			}
			vv, err := e.eval(ex.Args[2])
			if err != nil {
				return SVal{}, err
			}
			kt := e.X.keyTerm(e.St, kv)
			return mkBool(and(eq(has, "(store "+has0+" "+kt+" true)"), eq(vals, "(store "+vals0+" "+kt+" "+e.X.termOf(e.St, vv)+")"))), nil
		}
		want := has0
		for _, ka := range ex.Args[1:] {
			kv, err := e.eval(ka)
			if err != nil {
				return SVal{}, err
			}
			want = "(store " + want + " " + e.X.keyTerm(e.St, kv) + " true)"
		}
		return mkBool(eq(has, want)), nil
	case "fresh":
		// fresh(s): the slice s (current value) shares no array with a slice passed to an event on this path
		c := e.sub()
		c.Old = false
		sv, err := c.eval(ex.Args[0])
		if err != nil {
			return SVal{}, err
		}
		if sv.K != KSlice {
			return SVal{}, fmt.Errorf("fresh: not a slice")
		}
		for _, ev := range e.Events {
			for _, a := range ev.Args {
				if a.K == KSlice && a.Loc == sv.Loc {
					return mkBool("false"), nil
				}
			}
		}
		return mkBool("true"), nil
	case "len":
		v, err := e.eval(ex.Args[0])
		if err != nil {
			return SVal{}, err
		}
		if v.K == KSlice {
			return mkInt(v.Len), nil
		}
		return mkInt(e.X.D.app("len!str", []string{e.X.termOf(e.St, v)}, []string{"U"}, "Int")), nil
	}
	// uninterpreted application: user function results name_i(args) or spec-level function
	var args []SVal
	for _, a := range ex.Args {
		v, err := e.eval(a)
		if err != nil {
			return SVal{}, err
		}
		args = append(args, v)
	}
	var ats, asorts []string
	for _, a := range args {
		ats = append(ats, e.X.termOf(e.St, a))
		asorts = append(asorts, e.X.sortOfVal(a))
	}
	if m := regexp.MustCompile(`^(.*)_([0-9])$`).FindStringSubmatch(fname); m != nil && e.UserFn[m[1]] {
		name := m[1] + "!" + m[2]
		if sig, ok := e.X.D.funs[sanitize(name)]; ok {
			res := sig[len(sig)-1]
			t := e.X.D.app(name, ats, asorts, res)
			switch res {
			case "Int":
				return mkInt(t), nil
			case "Bool":
				return mkBool(t), nil
			}
			return mkU(t), nil
		}
		if sig := e.UserSig[m[1]]; sig != nil {
			idx, _ := strconv.Atoi(m[2])
			if idx < sig.Results().Len() {
				rt := sig.Results().At(idx).Type()
				t := e.X.D.app(name, ats, asorts, sortOf(rt))
				return e.X.unbox(e.St, t, rt), nil
			}
		}
		return SVal{}, fmt.Errorf("user function result %s not used on this path", fname)
	}
	if sig, ok := e.X.D.funs[sanitize(fname)]; ok {
		res := sig[len(sig)-1]
		t := e.X.D.app(fname, ats, asorts, res)
		switch res {
		case "Int":
			return mkInt(t), nil
		case "Bool":
			return mkBool(t), nil
		}
		return mkU(t), nil
	}
	// spec-level uninterpreted function, sort U unless named is_/has_
	res := "U"
	if strings.HasPrefix(fname, "is_") || strings.HasPrefix(fname, "has_") {
		res = "Bool"
	}
	// the ordering of a type parameter (lt_T, le_T, gt_T, ge_T: what `<` ... on a generic numeric compile to) is a predicate
	// also when the code under contract no longer compares anything - the clause is then decided, not left unbound
	if regexp.MustCompile(`^(lt|le|gt|ge)_[A-Za-z]`).MatchString(fname) {
		res = "Bool"
	}
	t := e.X.D.app(fname, ats, asorts, res)
	if res == "Bool" {
		return mkBool(t), nil
	}
	return mkU(t), nil
}

var eventPrefixes = []string{"callfn", "call", "hook", "lock", "unlock", "trylock", "go", "spawn", "chsend", "chrecv", "chclose", "loop"}

// normEventName turns the contract spelling `call.F` into the internal event name `call:F`.
func normEventName(n string) string {
	// `.ANY` is the Go-parsable spelling of the `.*` wildcard
	if strings.HasSuffix(n, ".ANY") {
		n = strings.TrimSuffix(n, "ANY") + "*"
	}
	for _, p := range eventPrefixes {
		if strings.HasPrefix(n, p+".") {
			return p + ":" + n[len(p)+1:]
		}
	}
	return n
}

func (e *Env) resolveEventName(n string) string {
	if a, ok := e.Alias[n]; ok {
		return a
	}
	// prefix alias: `sub=NewSubscriber()` turns sub.Add into NewSubscriber().Add
	if i := strings.Index(n, "."); i > 0 {
		if a, ok := e.Alias[n[:i]]; ok {
			return normEventName(a + n[i:])
		}
	}
	return normEventName(n)
}

func eventNameMatch(pat, name string) bool {
	if pat == name {
		return true
	}
	if strings.HasSuffix(pat, "*") {
		return strings.HasPrefix(name, strings.TrimSuffix(pat, "*"))
	}
	return false
}

// traceMatch: the tracked events of the path are exactly the given patterns, in order.
func (e *Env) traceMatch(pats []ast.Expr) (SVal, error) {
	var evs []Event
	for _, ev := range e.Events {
		if e.Track == nil || e.Track(ev.Name) {
			evs = append(evs, ev)
		}
	}
	if os.Getenv("ROVC_DEBUG") != "" {
		for _, ev := range e.Events {
			fmt.Fprintf(os.Stderr, "TRACE-EVENT %s tracked=%v", ev.Name, e.Track == nil || e.Track(ev.Name))
			for _, a := range ev.Args {
				fmt.Fprintf(os.Stderr, " [%v %s %s]", a.K, a.Loc, a.T)
			}
			fmt.Fprintln(os.Stderr)
		}
	}
	if len(evs) != len(pats) {
		return mkBool("false"), nil
	}
	var cs []string
	for i, p := range pats {
		c, err := e.matchEvent(p, evs[i])
		if err != nil {
			return SVal{}, err
		}
		cs = append(cs, c)
	}
	return mkBool(and(cs...)), nil
}

// matchFields: fields(p0, p1, ...) is a field-wise pattern on a struct value; `_` matches anything and a
// nested fields(...) matches a struct-valued field.
func (e *Env) matchFields(fc *ast.CallExpr, arg SVal) (string, error) {
	if arg.K != KStruct || len(fc.Args) > len(arg.Elems) {
		return "false", nil
	}
	var cs []string
	for j, fa := range fc.Args {
		if id, ok := fa.(*ast.Ident); ok && id.Name == "_" {
			continue
		}
		if sub, ok := fa.(*ast.CallExpr); ok && exprString(sub.Fun) == "fields" {
			c, err := e.matchFields(sub, arg.Elems[j])
			if err != nil {
				return "", err
			}
			cs = append(cs, c)
			continue
		}
		fv, err := e.eval(fa)
		if err != nil {
			return "", err
		}
		cs = append(cs, e.X.valEq(e.St, arg.Elems[j], fv))
	}
	return and(cs...), nil
}

// matchEventName: the pattern names the kind of event ev (arguments not considered).
func (e *Env) matchEventName(p ast.Expr, ev Event) bool {
	if call, ok := p.(*ast.CallExpr); ok {
		return eventNameMatch(e.resolveEventName(exprString(call.Fun)), ev.Name)
	}
	return eventNameMatch(e.resolveEventName(exprString(p)), ev.Name)
}

func (e *Env) matchEvent(p ast.Expr, ev Event) (string, error) {
	call, ok := p.(*ast.CallExpr)
	if !ok {
		// bare name: only the event kind is constrained
		if eventNameMatch(e.resolveEventName(exprString(p)), ev.Name) {
			return "true", nil
		}
		return "false", nil
	}
	name := e.resolveEventName(exprString(call.Fun))
	if !eventNameMatch(name, ev.Name) {
		return "false", nil
	}
	if len(call.Args) > len(ev.Args) {
		return "false", nil
	}
	if (ev.Name == "chselect" || ev.Name == "chpoll") && len(call.Args) == len(ev.Args) && len(ev.Args) >= 2 && len(ev.Args) <= 4 {
		// the cases of a select are a set: their order in the source is not observable (Go chooses among the ready
		// cases at random), so chselect(in, done) also names a select written `case <-done: ... case v := <-in:`
		var vals []SVal
		for _, a := range call.Args {
			if id, ok := a.(*ast.Ident); ok && id.Name == "_" {
				vals = append(vals, SVal{})
				continue
			}
			v, err := e.eval(a)
			if err != nil {
				return "", err
			}
			vals = append(vals, v)
		}
		var alts []string
		var perm func(k int, used []bool, cur []int)
		perm = func(k int, used []bool, cur []int) {
			if k == len(vals) {
				var cs []string
				for i, j := range cur {
					if id, ok := call.Args[i].(*ast.Ident); ok && id.Name == "_" {
						continue
					}
					cs = append(cs, e.X.valEq(e.St, ev.Args[j], vals[i]))
				}
				alts = append(alts, and(cs...))
				return
			}
			for j := range ev.Args {
				if !used[j] {
					used[j] = true
					perm(k+1, used, append(cur, j))
					used[j] = false
				}
			}
		}
		perm(0, make([]bool, len(ev.Args)), nil)
		return or(alts...), nil
	}
	var cs []string
	for i, a := range call.Args {
		if id, ok := a.(*ast.Ident); ok && id.Name == "_" {
			continue
		}
		if fc, ok := a.(*ast.CallExpr); ok && exprString(fc.Fun) == "withvalue" && len(fc.Args) == 1 {
			// withvalue(c): the argument is context.WithValue(c, k, v) for some key and value
			base, err := e.eval(fc.Args[0])
			if err != nil {
				return "", err
			}
			want := "(" + smtName(sanitize("ctx_WithValue")) + " " + e.X.termOf(e.St, base) + " "
			cs = append(cs, boolLit(ev.Args[i].K == KU && strings.HasPrefix(ev.Args[i].T, want)))
			continue
		}
		if fc, ok := a.(*ast.CallExpr); ok && exprString(fc.Fun) == "addr" && len(fc.Args) == 1 {
			// addr(x): the argument is the address of the local cell x of the function under contract
			nm := exprString(fc.Args[0])
			if e.Idents != nil && !e.Idents[nm] {
				return "", fmt.Errorf("unknown identifier %s (a cell named by addr)", nm)
			}
			got := ev.Args[i]
			cs = append(cs, boolLit(got.K == KLoc && newPrefixRe.ReplaceAllString(got.Loc, "") == nm))
			continue
		}
		if fc, ok := a.(*ast.CallExpr); ok && exprString(fc.Fun) == "fields" {
			c, err := e.matchFields(fc, ev.Args[i])
			if err != nil {
				return "", err
			}
			cs = append(cs, c)
			continue
		}
		if fc, ok := a.(*ast.CallExpr); ok && exprString(fc.Fun) == "elems" {
			// elems(a, b, ...): the argument is a slice of exactly these elements (as it was when it was passed)
			sl := ev.Args[i]
			if sl.K != KSlice {
				cs = append(cs, "false")
				continue
			}
			arr := sl.Snap
			if arr == "" {
				arr = e.X.arrTerm(e.St, sl)
			}
			cs = append(cs, eq(sl.Len, intLit(int64(len(fc.Args)))))
			for j, fa := range fc.Args {
				fv, err := e.eval(fa)
				if err != nil {
					return "", err
				}
				cs = append(cs, eq("(select "+arr+" "+plus(sl.Off, intLit(int64(j)))+")", e.X.termOf(e.St, fv)))
			}
			continue
		}
		v, err := e.eval(a)
		if err != nil {
			return "", err
		}
		if v.K == KSlice && ev.Args[i].K == KSlice {
			// slices passed in events are compared by content (length and array snapshot)
			a1, a2 := ev.Args[i], v
			s1, s2 := a1.Snap, a2.Snap
			if s2 == "" {
				s2 = e.X.arrTerm(e.St, a2)
				if e.Old {
					if iv, ok := e.St.Init[a2.Loc]; ok {
						s2 = iv.T
					}
				}
			}
			cs = append(cs, and(eq(a1.Len, a2.Len), eq(a1.Off, a2.Off), eq(s1, s2)))
			continue
		}
		cs = append(cs, e.X.valEq(e.St, ev.Args[i], v))
	}
	return and(cs...), nil
}

// chanElemsDiffer: both types are channel types and their element types are not identical.
func chanElemsDiffer(a, b types.Type) bool {
	if a == nil || b == nil {
		return false
	}
	ca, ok1 := a.Underlying().(*types.Chan)
	cb, ok2 := b.Underlying().(*types.Chan)
	return ok1 && ok2 && !types.Identical(ca.Elem(), cb.Elem())
}
