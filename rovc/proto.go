package main

import (
	"fmt"
	"go/token"
	"go/types"
	"sort"
	"strings"

	"golang.org/x/tools/go/ssa"
)

// ---------------------------------------------------------------------------
// Layer P: protocol obligations, generated for every observable-constructor call
// site of every loaded ro package, with zero or one-line annotations.
// These are closed facts about the SSA of the site (DESIGN.md Appendix D); they are
// reported with backend "structural" and never counted as SMT-discharged.
// ---------------------------------------------------------------------------

type pSite struct {
	*opSite
	Name   string
	Top    *ssa.Function
	Pkg    string
	InTree map[*ssa.Function]bool
	Dest   *ssa.Parameter
	SubCtx *ssa.Parameter
	parent map[*ssa.Function]*ssa.MakeClosure // closure -> the MakeClosure that creates it
	tdReach map[*ssa.Function]bool
}

type pCtx struct {
	opProps map[string][]string // operator contract name -> its props
	curDelegProps []string
	curExtra      []string // properties of the plugin the current site belongs to (C18 data plugins, C19 prometheus, C20 rate limiters)
	kc     *kernelCtx
	units  map[string]*Unit
	annots map[string]*Block // site annotations by site name
}

func isRoPkg(path string) bool {
	return path == roPath || strings.HasPrefix(path, roPath+"/")
}

func (pc *pCtx) allSites() []*pSite {
	var out []*pSite
	var paths []string
	for p := range pc.kc.w.ByPath {
		if isRoPkg(p) && !strings.Contains(p, "/examples/") && !strings.HasSuffix(p, "/testing") && !strings.Contains(p, "/internal/") {
			paths = append(paths, p)
		}
	}
	sort.Strings(paths)
	for _, p := range paths {
		fns := pc.kc.w.allFuncs(p)
		for _, k := range sortedKeys(fns) {
			fn := fns[k]
			if fn.Parent() != nil || fn.Blocks == nil {
				continue
			}
			if strings.HasSuffix(pc.kc.w.Prog.Fset.Position(fn.Pos()).Filename, "_test.go") {
				continue
			}
			sites := findSites(fn)
			for i, s := range sites {
				name := k
				if p != roPath {
					name = strings.TrimPrefix(p, roPath+"/") + "." + k
				}
				if len(sites) > 1 {
					name = fmt.Sprintf("%s#%d", name, i)
				}
				ps := &pSite{opSite: s, Name: name, Top: fn, Pkg: p, InTree: map[*ssa.Function]bool{}, parent: map[*ssa.Function]*ssa.MakeClosure{}}
				for _, c := range s.Closures {
					ps.InTree[c] = true
				}
				for _, f := range closureTree(fn) {
					for _, b := range f.Blocks {
						for _, ins := range b.Instrs {
							if mc, ok := ins.(*ssa.MakeClosure); ok {
								if cf, ok := mc.Fn.(*ssa.Function); ok {
									ps.parent[cf] = mc
								}
							}
						}
					}
				}
				for _, prm := range s.Subscribe.Params {
					if isObserverType(prm.Type()) {
						ps.Dest = prm
					}
					if isContextType(prm.Type()) {
						ps.SubCtx = prm
					}
				}
				out = append(out, ps)
			}
		}
	}
	return out
}

func isContextType(t types.Type) bool {
	n, ok := t.(*types.Named)
	return ok && n.Obj().Pkg() != nil && n.Obj().Pkg().Path() == "context" && n.Obj().Name() == "Context"
}

func namedName(t types.Type) string {
	if p, ok := t.(*types.Pointer); ok {
		t = p.Elem()
	}
	if n, ok := t.(*types.Named); ok {
		return n.Obj().Name()
	}
	return ""
}

func isObserverType(t types.Type) bool {
	switch namedName(t) {
	case "Observer", "Subscriber", "Subject":
		return true
	}
	return false
}

func hasMethod(t types.Type, name string) bool {
	ms := types.NewMethodSet(t)
	for i := 0; i < ms.Len(); i++ {
		if ms.At(i).Obj().Name() == name {
			return true
		}
	}
	return false
}

// root resolves a value to the allocation / parameter / global it denotes, looking through
// free-variable bindings, loads of pointers are NOT followed (a load yields a value, not a cell).
func (s *pSite) root(v ssa.Value) ssa.Value {
	for i := 0; i < 32; i++ {
		switch t := v.(type) {
		case *ssa.FreeVar:
			fn := t.Parent()
			mc := s.parent[fn]
			if mc == nil {
				return t
			}
			idx := -1
			for j, fv := range fn.FreeVars {
				if fv == t {
					idx = j
				}
			}
			if idx < 0 || idx >= len(mc.Bindings) {
				return t
			}
			v = mc.Bindings[idx]
		case *ssa.FieldAddr:
			v = t.X
		case *ssa.IndexAddr:
			v = t.X
		case *ssa.ChangeType:
			v = t.X
		case *ssa.ChangeInterface:
			v = t.X
		case *ssa.MakeInterface:
			v = t.X
		default:
			return v
		}
	}
	return v
}

// cellOf returns the heap cell (Alloc) a value was loaded from, if it is a direct load of a cell.
func (s *pSite) cellOf(v ssa.Value) *ssa.Alloc {
	if u, ok := v.(*ssa.UnOp); ok && u.Op == token.MUL {
		if a, ok := s.root(u.X).(*ssa.Alloc); ok {
			return a
		}
	}
	return nil
}

func (s *pSite) isDest(v ssa.Value) bool {
	if s.Dest == nil {
		return false
	}
	for i := 0; i < 8; i++ {
		switch t := v.(type) {
		case *ssa.Parameter:
			return t == s.Dest
		case *ssa.UnOp:
			if t.Op != token.MUL {
				return false
			}
			a, ok := s.root(t.X).(*ssa.Alloc)
			if !ok {
				return false
			}
			// the cell holding the destination parameter: every store to it stores the parameter
			for _, r := range *a.Referrers() {
				if st, ok := r.(*ssa.Store); ok && st.Addr == a {
					return st.Val == s.Dest
				}
			}
			return false
		case *ssa.ChangeInterface:
			v = t.X
		case *ssa.MakeInterface:
			v = t.X
		case *ssa.TypeAssert:
			v = t.X
		default:
			return false
		}
	}
	return false
}

func cellName(v ssa.Value) string {
	switch t := v.(type) {
	case *ssa.Alloc:
		if t.Comment != "" {
			return t.Comment
		}
		return t.Name()
	case *ssa.Parameter:
		return t.Name()
	case *ssa.Global:
		return t.Name()
	case *ssa.FreeVar:
		return t.Name()
	}
	return v.Name()
}

// role names a function of the site's closure tree: subscribe, teardown, next@src, ..., or its closure path.
func (s *pSite) role(fn *ssa.Function) string {
	if fn == s.Subscribe {
		return "subscribe"
	}
	for _, t := range s.Teardowns {
		if t == fn {
			return "teardown"
		}
	}
	kinds := []string{"next", "error", "complete"}
	for _, t := range s.Triples {
		for i, a := range t.Args {
			if mc, ok := a.(*ssa.MakeClosure); ok && mc.Fn == fn {
				if len(s.Triples) > 1 && t.Source != "" {
					return kinds[i] + "@" + t.Source
				}
				return kinds[i]
			}
			if f, ok := a.(*ssa.Function); ok && f == fn {
				if len(s.Triples) > 1 && t.Source != "" {
					return kinds[i] + "@" + t.Source
				}
				return kinds[i]
			}
		}
	}
	// nested helper closure: name of the variable it is stored in, else its relative closure path
	if mc := s.parent[fn]; mc != nil {
		for _, r := range *mc.Referrers() {
			if st, ok := r.(*ssa.Store); ok {
				if a, ok := st.Addr.(*ssa.Alloc); ok && a.Comment != "" {
					return a.Comment
				}
			}
		}
	}
	return strings.TrimPrefix(funcKey(fn), funcKey(s.Subscribe))
}

func (pc *pCtx) add(prop []string, name, clause string, ok bool, note string, pos string) {
	if len(pc.curExtra) > 0 {
		// a site of a plugin package: the plugin's own property also asks for the core contract there
		prop = append(append([]string{}, prop...), pc.curExtra...)
	}
	status := "discharged"
	if !ok {
		status = "failed"
	}
	u := pc.units[name]
	if u == nil {
		u = &Unit{Name: name, Layer: "P"}
		pc.units[name] = u
	}
	u.Obls = append(u.Obls, OutObl{Name: name, Props: prop, Layer: "P", Clause: clause, Backend: "structural", Status: status, Note: note, Pos: pos})
}

func runProtocol(kc *kernelCtx, blocks []*Block, only string, want map[string]bool) []*Unit {
	pc := &pCtx{kc: kc, units: map[string]*Unit{}, annots: map[string]*Block{}}
	for _, b := range blocks {
		if b.Kind == "site" {
			pc.annots[b.Name] = b
		}
	}
	sites := pc.allSites()
	on := func(p string) bool { return len(want) == 0 || want[p] }
	for _, s := range sites {
		if only != "" && !strings.Contains(s.Name, only) {
			continue
		}
		pc.curExtra = nil
		plug := ""
		if s.Subscribe != nil && s.Subscribe.Pkg != nil {
			pp := s.Subscribe.Pkg.Pkg.Path()
			switch {
			case strings.Contains(pp, "/ee/plugins/prometheus"):
				plug = "C19"
			case strings.Contains(pp, "/plugins/ratelimit"):
				plug = "C20"
			case strings.Contains(pp, "/plugins/"):
				plug = "C18"
			}
		}
		if plug != "" {
			pc.curExtra = []string{plug}
		}
		onPlug := plug != "" && on(plug)
		if on("C09") || on("C14") || on("C16") || onPlug {
			pc.p1Context(s)
		}
		if on("C12") || on("C16") || on("C11") || on("C14") || on("C20") || onPlug {
			pc.p3Frame(s)
		}
		if on("C03") || on("C14") || on("C05") || on("C16") || onPlug {
			pc.p2Release(s)
			pc.p2cUnconditionalRelease(s)
		}
		if on("C14") {
			pc.p9BlockingWaits(s)
		}
		if on("C07") || on("C05") || on("C06") || on("C03") || on("C14") {
			pc.p10LockOrder(s)
		}
		if on("C01") || on("C02") || on("C05") || on("C13") {
			pc.p4Mode(s)
		}
		if on("C08") {
			pc.p5Sync(s)
		}
		if on("C04") || on("C09") || onPlug {
			pc.p12AtomicValue(s)
		}
		if on("C04") || onPlug {
			pc.p4Dropping(s)
		}
		if on("C13") || on("C05") || on("C16") {
			pc.p7Lockset(s, on("C13"), on("C05") || on("C16"))
		}
	}
	pc.curExtra = nil
	if on("C12") || on("C16") || on("C20") || on("C18") || on("C19") || on("C04") || on("C05") || on("C15") {
		pc.p3Lazy(sites, only)
	}
	if on("C07") {
		pc.p6Panics(only)
	}
	if on("C12") || on("C16") {
		pc.p3SpareCapacity(only)
	}
	if on("C09") || on("C18") {
		pc.p1Helpers(only)
	}
	if on("C18") {
		pc.p8Twins(only)
	}
	if on("C09") || on("C19") {
		pc.p1CtxKeys(only)
	}
	if on("C03") || on("C14") || on("C17") {
		pc.p2BareReceive(only)
	}
	pc.t1Promoted(only)
	if on("C13") || on("C05") {
		pc.p7Helpers(only)
	}
	if on("C03") || on("C14") || on("C16") {
		pc.p2StopChannels(only)
	}
	if on("C09") || on("C01") || on("C06") || on("C10") || on("C11") {
		pc.d2ContextlessMethods(only)
	}
	if on("C08") || on("C05") || on("C02") {
		pc.p7NoTryLock(only)
	}
	if on("C04") || on("C18") || on("C05") || on("C16") {
		pc.p8Frames(only)
	}
	pc.opProps = map[string][]string{}
	for _, b := range blocks {
		if b.Kind == "operator" {
			pc.opProps[qualName(b)] = b.props()
		}
	}
	if on("C19") {
		pc.pnInstrumentedPipes(only)
	}
	pc.d1Delegates(only) // tagged with C04 and the properties of the canonical operator's contract; filtered by the caller

	if on("C01") || on("C02") {
		pc.f1Implementors()
	}
	var names []string
	for n := range pc.units {
		names = append(names, n)
	}
	sort.Strings(names)
	var out []*Unit
	for _, n := range names {
		u := pc.units[n]
		// merge obligations with the same name into one (failed if any failed)
		merged := map[string]*OutObl{}
		var order []string
		for i := range u.Obls {
			o := u.Obls[i]
			if m, ok := merged[o.Name]; ok {
				if o.Status == "failed" {
					m.Status = "failed"
					m.Note = strings.TrimSpace(m.Note + "; " + o.Note)
				}
				m.Paths++
				continue
			}
			oc := o
			oc.Paths = 1
			merged[o.Name] = &oc
			order = append(order, o.Name)
		}
		u.Obls = nil
		for _, k := range order {
			u.Obls = append(u.Obls, *merged[k])
		}
		out = append(out, u)
	}
	return out
}

func (pc *pCtx) annotated(site, key string) (string, bool) {
	b := pc.annots[site]
	if b == nil {
		return "", false
	}
	for _, c := range b.Clauses {
		if c.Kind == key {
			return c.Text, true
		}
	}
	return "", false
}

func (pc *pCtx) pos(p token.Pos) string {
	if !p.IsValid() {
		return ""
	}
	ps := pc.kc.w.Prog.Fset.Position(p)
	return fmt.Sprintf("%s:%d", shortFile(ps.Filename), ps.Line)
}

// ---------------------------------------------------------------------------
// P1: context derivation (C09)
// ---------------------------------------------------------------------------

type originSet map[string]bool

func (o originSet) add(xs ...string) originSet {
	for _, x := range xs {
		o[x] = true
	}
	return o
}

func (o originSet) union(p originSet) originSet {
	for k := range p {
		o[k] = true
	}
	return o
}

func (o originSet) list() []string { return sortedStrs(o) }

var ctxAllowed = map[string]bool{"cb": true, "sub": true, "supplied": true}

type originCalc struct {
	s     *pSite
	memo  map[ssa.Value]originSet
	stack map[ssa.Value]bool
	busy  map[string]bool
}

func (oc *originCalc) of(v ssa.Value) originSet {
	if o, ok := oc.memo[v]; ok {
		return o
	}
	if oc.stack[v] {
		return originSet{}
	}
	oc.stack[v] = true
	o := oc.compute(v)
	delete(oc.stack, v)
	oc.memo[v] = o
	return o
}

func (oc *originCalc) compute(v ssa.Value) originSet {
	s := oc.s
	switch t := v.(type) {
	case *ssa.Parameter:
		fn := t.Parent()
		if fn == s.Subscribe {
			return originSet{}.add("sub")
		}
		if s.InTree[fn] {
			// callback or local helper closure: helper closures called directly get their callers' origins
			if calls := oc.directCalls(fn); len(calls) > 0 {
				idx := -1
				for i, p := range fn.Params {
					if p == t {
						idx = i
					}
				}
				o := originSet{}
				for _, c := range calls {
					if idx < len(c.Call.Args) {
						o.union(oc.of(c.Call.Args[idx]))
					}
				}
				return o
			}
			return originSet{}.add("cb")
		}
		// parameter of the operator constructor / func(source)
		return originSet{}.add("supplied")
	case *ssa.Const:
		if t.Value == nil {
			return originSet{}.add("nil")
		}
		return originSet{}.add("const")
	case *ssa.Phi:
		o := originSet{}
		for _, e := range t.Edges {
			o.union(oc.of(e))
		}
		return o
	case *ssa.ChangeInterface:
		return oc.of(t.X)
	case *ssa.MakeInterface:
		return oc.of(t.X)
	case *ssa.ChangeType:
		return oc.of(t.X)
	case *ssa.TypeAssert:
		return oc.of(t.X)
	case *ssa.Extract:
		return oc.ofCallResult(t.Tuple, t.Index)
	case *ssa.Call:
		return oc.ofCallResult(t, 0)
	case *ssa.UnOp:
		if t.Op == token.MUL {
			return oc.ofLoad(t.X)
		}
		if t.Op == token.ARROW {
			return originSet{}.add("chan")
		}
	case *ssa.Field:
		return oc.ofField(t.X, t.Field)
	case *ssa.Lookup, *ssa.Index:
		return originSet{}.add("unknown")
	case *ssa.FreeVar, *ssa.Alloc:
		return oc.ofLoad(t)
	}
	return originSet{}.add("unknown")
}

// directCalls lists the call instructions that call closure fn directly (through the cell it is stored in).
func (oc *originCalc) directCalls(fn *ssa.Function) []*ssa.Call {
	s := oc.s
	mc := s.parent[fn]
	if mc == nil {
		return nil
	}
	var cells []*ssa.Alloc
	direct := []ssa.Value{mc}
	for _, r := range *mc.Referrers() {
		if st, ok := r.(*ssa.Store); ok {
			if a, ok := s.root(st.Addr).(*ssa.Alloc); ok {
				cells = append(cells, a)
			}
		}
	}
	var out []*ssa.Call
	for f := range s.InTree {
		for _, b := range f.Blocks {
			for _, ins := range b.Instrs {
				c, ok := ins.(*ssa.Call)
				if !ok || c.Call.IsInvoke() {
					continue
				}
				val := c.Call.Value
				for _, d := range direct {
					if val == d {
						out = append(out, c)
					}
				}
				if a := s.cellOf(val); a != nil {
					for _, cell := range cells {
						if a == cell {
							out = append(out, c)
						}
					}
				}
			}
		}
	}
	return out
}

func (oc *originCalc) ofCallResult(v ssa.Value, idx int) originSet {
	call, ok := v.(*ssa.Call)
	if !ok {
		return originSet{}.add("unknown")
	}
	c := call.Common()
	if f := c.StaticCallee(); f != nil {
		pkg := pkgPathOf(f)
		name := f.Name()
		if o := f.Origin(); o != nil {
			name = o.Name()
		}
		if pkg == "context" {
			switch name {
			case "Background", "TODO":
				return originSet{}.add("fresh")
			case "WithValue", "WithCancel", "WithTimeout", "WithDeadline", "WithCancelCause", "WithoutCancel", "WithTimeoutCause", "WithDeadlineCause":
				if idx == 0 && len(c.Args) > 0 {
					return oc.of(c.Args[0])
				}
			}
		}
		if pkg == "github.com/samber/lo" && len(name) == 2 && name[0] == 'T' {
			// tuple constructor: the struct carries the origin of each component; asked for the whole value
			o := originSet{}
			for _, a := range c.Args {
				if isContextType(a.Type()) {
					o.union(oc.of(a))
				}
			}
			return o
		}
		if pkg == "sync/atomic" && f.Signature.Recv() != nil && name == "Load" && len(c.Args) == 1 {
			// atomic.Value / atomic.Pointer used as a cell: union of everything stored into it
			if al, ok := oc.s.root(c.Args[0]).(*ssa.Alloc); ok {
				o := originSet{}
				found := false
				for fn := range oc.s.InTree {
					for _, b := range fn.Blocks {
						for _, ins := range b.Instrs {
							if c2, ok := ins.(*ssa.Call); ok {
								if f2 := c2.Common().StaticCallee(); f2 != nil && pkgPathOf(f2) == "sync/atomic" && f2.Name() == "Store" && len(c2.Common().Args) == 2 && oc.s.root(c2.Common().Args[0]) == ssa.Value(al) {
									o.union(oc.of(c2.Common().Args[1]))
									found = true
								}
							}
						}
					}
				}
				if found {
					return o
				}
			}
			return originSet{}.add("unknown")
		}
		// library helper returning a context derived from its context arguments
		o := originSet{}
		n := 0
		for _, a := range c.Args {
			if isContextType(a.Type()) {
				o.union(oc.of(a))
				n++
			}
		}
		if n > 0 {
			return o
		}
		return originSet{}.add("unknown")
	}
	if c.IsInvoke() {
		// method returning a context (rare): derived from receiver
		return originSet{}.add("unknown")
	}
	// call of a function value: user callback -> derived from the contexts passed to it
	o := originSet{}
	n := 0
	for _, a := range c.Args {
		if isContextType(a.Type()) {
			o.union(oc.of(a))
			n++
		}
	}
	if n > 0 {
		return o
	}
	return originSet{}.add("user")
}

// ofLoad: origins of the values stored in the cell addr points to.
func (oc *originCalc) ofLoad(addr ssa.Value) originSet {
	s := oc.s
	// a pointer read back from an atomic.Value / atomic.Pointer cell (contexts stored by address): the cells whose
	// addresses were stored into it
	{
		cur := addr
		for i := 0; i < 4; i++ {
			switch t := cur.(type) {
			case *ssa.TypeAssert:
				cur = t.X
				continue
			case *ssa.ChangeInterface:
				cur = t.X
				continue
			case *ssa.Extract:
				cur = t.Tuple
				continue
			}
			break
		}
		if c, ok := cur.(*ssa.Call); ok {
			if f := c.Common().StaticCallee(); f != nil && pkgPathOf(f) == "sync/atomic" && f.Signature.Recv() != nil && f.Name() == "Load" && len(c.Common().Args) == 1 {
				if al, ok := s.root(c.Common().Args[0]).(*ssa.Alloc); ok {
					o := originSet{}
					found := false
					for fn := range s.InTree {
						for _, b := range fn.Blocks {
							for _, ins := range b.Instrs {
								c2, ok := ins.(*ssa.Call)
								if !ok {
									continue
								}
								f2 := c2.Common().StaticCallee()
								if f2 == nil || pkgPathOf(f2) != "sync/atomic" || f2.Name() != "Store" || len(c2.Common().Args) != 2 || s.root(c2.Common().Args[0]) != ssa.Value(al) {
									continue
								}
								stored := c2.Common().Args[1]
								if mi, ok := stored.(*ssa.MakeInterface); ok {
									stored = mi.X
								}
								if _, isPtr := stored.Type().Underlying().(*types.Pointer); isPtr {
									o.union(oc.ofLoad(stored))
									found = true
								}
							}
						}
					}
					if found {
						return o
					}
				}
			}
		}
	}
	switch a := addr.(type) {
	case *ssa.FieldAddr:
		// field of a struct held in a slice element
		if ia, ok := a.X.(*ssa.IndexAddr); ok {
			if al := s.cellOf(ia.X); al != nil {
				return oc.sliceElemOrigins(al, a.Field)
			}
			return oc.sliceValueElemOrigins(ia.X, a.Field)
		}
		// field of a struct cell: stores to that field, or whole-struct stores
		base := s.root(a.X)
		if al, ok := base.(*ssa.Alloc); ok {
			return oc.cellOrigins(al, a.Field, true)
		}
		return originSet{}.add("unknown")
	case *ssa.IndexAddr:
		// element of a slice held in a cell
		if al := s.cellOf(a.X); al != nil {
			return oc.sliceElemOrigins(al, -1)
		}
		return originSet{}.add("unknown")
	}
	base := s.root(addr)
	switch b := base.(type) {
	case *ssa.Alloc:
		return oc.cellOrigins(b, -1, false)
	case *ssa.Global:
		return originSet{}.add("global")
	case *ssa.Parameter:
		return oc.of(b)
	}
	return originSet{}.add("unknown")
}

// cellOrigins: union of origins of everything stored into the cell (field < 0: the whole value).
func (oc *originCalc) cellOrigins(al *ssa.Alloc, field int, isField bool) originSet {
	s := oc.s
	o := originSet{}
	stores := 0
	visit := func(st *ssa.Store) {
		stores++
		if fa, ok := st.Addr.(*ssa.FieldAddr); ok {
			if !isField || fa.Field != field {
				return
			}
			o.union(oc.of(st.Val))
			return
		}
		// whole-value store
		if isField {
			o.union(oc.ofFieldOfValue(st.Val, field))
		} else {
			o.union(oc.of(st.Val))
		}
	}
	for f := range s.InTree {
		for _, b := range f.Blocks {
			for _, ins := range b.Instrs {
				if st, ok := ins.(*ssa.Store); ok && s.root(st.Addr) == ssa.Value(al) {
					visit(st)
				}
			}
		}
	}
	// stores outside the subscription tree (constructor level)
	for _, f := range closureTree(s.Top) {
		if s.InTree[f] {
			continue
		}
		for _, b := range f.Blocks {
			for _, ins := range b.Instrs {
				if st, ok := ins.(*ssa.Store); ok && s.root(st.Addr) == ssa.Value(al) {
					visit(st)
				}
			}
		}
	}
	// a cell of context type (or a tuple holding one) starts as the zero value unless it is
	// initialised by a store that dominates every use; we only recognise "stored in the allocating
	// block right after allocation" as initialisation
	if !oc.initialised(al) {
		o.add("zero")
	}
	return o
}

func (oc *originCalc) initialised(al *ssa.Alloc) bool {
	b := al.Block()
	seen := false
	for _, ins := range b.Instrs {
		if ins == ssa.Instruction(al) {
			seen = true
			continue
		}
		if !seen {
			continue
		}
		if st, ok := ins.(*ssa.Store); ok && st.Addr == ssa.Value(al) {
			return true
		}
		if _, ok := ins.(*ssa.MakeClosure); ok {
			return false
		}
	}
	return false
}

func (oc *originCalc) ofField(x ssa.Value, field int) originSet {
	return oc.ofFieldOfValue(x, field)
}

// ofFieldOfValue: origins of field `field` of struct value v.
func (oc *originCalc) ofFieldOfValue(v ssa.Value, field int) originSet {
	switch t := v.(type) {
	case *ssa.Call:
		if f := t.Common().StaticCallee(); f != nil && pkgPathOf(f) == "github.com/samber/lo" && len(f.Name()) >= 2 && f.Name()[0] == 'T' {
			if field < len(t.Common().Args) {
				return oc.of(t.Common().Args[field])
			}
		}
		return originSet{}.add("unknown")
	case *ssa.UnOp:
		if t.Op == token.MUL {
			switch a := t.X.(type) {
			case *ssa.IndexAddr:
				if al := oc.s.cellOf(a.X); al != nil {
					return oc.sliceElemOrigins(al, field)
				}
				// slice value not held in a cell (e.g. local copy): trace the slice value
				return oc.sliceValueElemOrigins(a.X, field)
			default:
				if al, ok := oc.s.root(t.X).(*ssa.Alloc); ok {
					return oc.cellOrigins(al, field, true)
				}
			}
		}
		if t.Op == token.ARROW {
			return originSet{}.add("chan")
		}
	case *ssa.Phi:
		o := originSet{}
		for _, e := range t.Edges {
			o.union(oc.ofFieldOfValue(e, field))
		}
		return o
	case *ssa.Const:
		return originSet{}.add("zero")
	case *ssa.Extract:
		return originSet{}.add("unknown")
	}
	return originSet{}.add("unknown")
}

// sliceElemOrigins: origins of (field of) the elements ever put into the slice held by cell al.
func (oc *originCalc) sliceElemOrigins(al *ssa.Alloc, field int) originSet {
	s := oc.s
	o := originSet{}
	key := fmt.Sprintf("%p/%d", al, field)
	if oc.busy == nil {
		oc.busy = map[string]bool{}
	}
	if oc.busy[key] {
		return o
	}
	oc.busy[key] = true
	defer delete(oc.busy, key)
	for f := range s.InTree {
		for _, b := range f.Blocks {
			for _, ins := range b.Instrs {
				st, ok := ins.(*ssa.Store)
				if !ok {
					continue
				}
				// buffer = append(buffer, x...) : Store(cell, append(...))
				if s.root(st.Addr) == ssa.Value(al) {
					if _, isIdx := st.Addr.(*ssa.IndexAddr); !isIdx {
						o.union(oc.sliceValueElemOrigins(st.Val, field))
					}
				}
				// buffer[i] = x
				if ia, ok := st.Addr.(*ssa.IndexAddr); ok {
					if s.cellOf(ia.X) == al {
						if field < 0 {
							o.union(oc.of(st.Val))
						} else {
							o.union(oc.ofFieldOfValue(st.Val, field))
						}
					}
				}
			}
		}
	}
	return o
}

// sliceValueElemOrigins: origins of the elements of a slice value (append chains, sub-slices, make).
func (oc *originCalc) sliceValueElemOrigins(v ssa.Value, field int) originSet {
	switch t := v.(type) {
	case *ssa.Call:
		if b, ok := t.Common().Value.(*ssa.Builtin); ok && b.Name() == "append" {
			o := oc.sliceValueElemOrigins(t.Common().Args[0], field)
			o.union(oc.sliceValueElemOrigins(t.Common().Args[1], field))
			return o
		}
		return originSet{}.add("unknown")
	case *ssa.Slice:
		// slice of a varargs array or of another slice
		if al, ok := t.X.(*ssa.Alloc); ok {
			o := originSet{}
			for _, r := range *al.Referrers() {
				if ia, ok := r.(*ssa.IndexAddr); ok {
					for _, r2 := range *ia.Referrers() {
						if st, ok := r2.(*ssa.Store); ok {
							if field < 0 {
								o.union(oc.of(st.Val))
							} else {
								o.union(oc.ofFieldOfValue(st.Val, field))
							}
						}
					}
				}
			}
			return o
		}
		return oc.sliceValueElemOrigins(t.X, field)
	case *ssa.UnOp:
		if t.Op == token.MUL {
			if al := oc.s.cellOf(t); al != nil {
				return oc.sliceElemOrigins(al, field)
			}
		}
	case *ssa.MakeSlice:
		return originSet{}
	case *ssa.Const:
		return originSet{}
	case *ssa.Phi:
		o := originSet{}
		for _, e := range t.Edges {
			o.union(oc.sliceValueElemOrigins(e, field))
		}
		return o
	}
	return originSet{}.add("unknown")
}

var emitMethods = map[string]bool{"Next": true, "NextWithContext": true, "Error": true, "ErrorWithContext": true, "Complete": true, "CompleteWithContext": true}

func (pc *pCtx) p1Context(s *pSite) {
	oc := &originCalc{s: s, memo: map[ssa.Value]originSet{}, stack: map[ssa.Value]bool{}}
	props := []string{"C09"}
	exempt, _ := pc.annotated(s.Name, "ctx-exempt")
	for _, fn := range s.Closures {
		role := s.role(fn)
		for _, b := range fn.Blocks {
			for _, ins := range b.Instrs {
				call, ok := ins.(ssa.CallInstruction)
				if !ok {
					continue
				}
				c := call.Common()
				if !c.IsInvoke() {
					continue
				}
				m := c.Method.Name()
				recv := cellName(s.root(stripLoad(c.Value)))
				var ctxArg ssa.Value
				kind := ""
				switch {
				case emitMethods[m] && (isObserverType(c.Value.Type()) || hasMethod(c.Value.Type(), "NextWithContext")):
					if strings.HasSuffix(m, "WithContext") {
						ctxArg = c.Args[0]
						kind = "emit"
					} else {
						kind = "emit-noctx"
					}
				case m == "SubscribeWithContext" || m == "ConnectWithContext":
					ctxArg = c.Args[0]
					kind = "subscribe"
				case m == "Subscribe" && len(c.Args) == 1 && isObserverType(c.Args[0].Type()):
					kind = "subscribe-noctx"
				case m == "Connect" && len(c.Args) == 0 && hasMethod(c.Value.Type(), "ConnectWithContext"):
					kind = "subscribe-noctx"
				default:
					continue
				}
				name := fmt.Sprintf("P1/%s/%s/%s.%s", s.Name, role, recv, m)
				props := props
				if kind == "subscribe" || kind == "subscribe-noctx" {
					// the context handed upstream is also how a cancellation reaches the context-aware sources (C14) and
					// stops the time-driven ones (C16)
					props = []string{"C09", "C14", "C16"}
				}
				if kind == "emit-noctx" || kind == "subscribe-noctx" {
					// the context-less method substitutes context.Background(): only acceptable in context-less sites
					ok := s.SubCtx == nil
					pc.add(props, name, "library code inside a context-aware subscription uses the WithContext form", ok, fmt.Sprintf("%s.%s drops the context (uses context.Background())", recv, m), pc.pos(ins.Pos()))
					continue
				}
				os := oc.of(ctxArg)
				var bad []string
				hasCbCtx := false
				for _, prm := range fn.Params {
					if isContextType(prm.Type()) && fn != s.Subscribe {
						hasCbCtx = true
					}
				}
				for _, o := range os.list() {
					if o == "sub" && hasCbCtx && kind == "emit" && !os["cb"] {
						// inside a callback that received the notification's own context, forwarding the subscription
						// context instead drops what was attached to the notification upstream
						bad = append(bad, "sub-instead-of-notification-context")
						continue
					}
					if ctxAllowed[o] {
						continue
					}
					if o == "zero" && pc.machineCovers(s, role) {
						// the stored context is pinned by the operator's machine contract (its ctx-nonnil obligation)
						continue
					}
					if o == "zero" {
						if txt, ok := pc.annotated(s.Name, "assume-ctx-set"); ok && strings.HasPrefix(strings.TrimSpace(txt)+" ", role+" ") {
							continue
						}
					}
					if kind == "subscribe" && o == "supplied" {
						continue
					}
					bad = append(bad, o)
				}
				if kind == "emit" && strings.HasPrefix(m, "Error") && len(c.Args) == 2 && os["sub"] && !os["cb"] && !hasCbCtx {
					// an error that a callback received (and stored) is delivered later from the subscribe body: it travels
					// with the context it arrived with, not with the subscription context (what was attached upstream is lost)
					if u, ok := c.Args[1].(*ssa.UnOp); ok && u.Op == token.MUL {
						if al, ok := s.root(u.X).(*ssa.Alloc); ok {
							for _, r := range *al.Referrers() {
								_ = r
							}
							for g := range s.InTree {
								if g == s.Subscribe {
									continue
								}
								gHasCtx := false
								for _, prm := range g.Params {
									if isContextType(prm.Type()) {
										gHasCtx = true
									}
								}
								if !gHasCtx {
									continue
								}
								for _, gb := range g.Blocks {
									for _, gi := range gb.Instrs {
										if st, ok := gi.(*ssa.Store); ok && s.root(st.Addr) == ssa.Value(al) {
											if _, isParam := st.Val.(*ssa.Parameter); isParam {
												bad = append(bad, "sub-instead-of-the-context-the-stored-error-arrived-with")
											}
										}
									}
								}
							}
						}
					}
				}
				if kind == "subscribe" {
					// a source must be subscribed with the subscriber context (or, for inner sources, the notification's)
					if s.SubCtx == nil {
						bad = nil
					}
				}
				if exempt != "" && strings.Contains(" "+strings.SplitN(exempt, ":", 2)[0]+" ", " "+role+" ") {
					bad = nil
				}
				okk := len(bad) == 0
				pc.add(props, name, "the context passed on is derived from the callback's / subscriber's context (or stored with the value, or returned by a user callback); never fresh, never nil", okk,
					fmt.Sprintf("origins %v of the context passed to %s.%s in %s", os.list(), recv, m, role), pc.pos(ins.Pos()))
			}
		}
	}
}

// machineCovers: the site's operator has a machine contract tagged C09 with a case for this role.
func (pc *pCtx) machineCovers(s *pSite, role string) bool {
	for _, b := range pc.kc.blocks {
		if b.Kind != "operator" || b.Pkg != s.Pkg || b.Name != funcKey(s.Top) {
			continue
		}
		tagged := false
		for _, p := range b.props() {
			if p == "C09" {
				tagged = true
			}
		}
		if !tagged {
			continue
		}
		// helper closures (onDone, flush...) are executed in place by the machine layer, so any contract tagged C09
		// carries the ctx-nonnil obligations of every emission of the site
		if len(b.all("on")) > 0 {
			return true
		}
	}
	return false
}

func stripLoad(v ssa.Value) ssa.Value {
	if u, ok := v.(*ssa.UnOp); ok && u.Op == token.MUL {
		return u.X
	}
	return v
}
