package main

import (
	"encoding/json"
	"flag"
	"fmt"
	"go/types"
	"os"
	"sort"
	"strings"
	"time"
)

func (kc *kernelCtx) fieldType(typeName, field string) types.Type {
	for _, p := range kc.w.Pkgs {
		if p.Types == nil {
			continue
		}
		obj := p.Types.Scope().Lookup(typeName)
		if obj == nil {
			continue
		}
		st, ok := obj.Type().Underlying().(*types.Struct)
		if !ok {
			continue
		}
		for i := 0; i < st.NumFields(); i++ {
			if st.Field(i).Name() == field {
				return st.Field(i).Type()
			}
		}
	}
	return nil
}

type GenOutput struct {
	Rebound []string `json:"rebound,omitempty"` // units verified under a renaming of identifiers
	Repo        string   `json:"repo"`
	Packages    []string `json:"packages"`
	Contracts   []string `json:"contract_files"`
	Obligations []OutObl `json:"obligations"`
	Funcs       []string `json:"functions_under_contract"`
	Errors      []string `json:"errors"`
	Assumed     []string `json:"assumed"`
	Replay      []*ReplayDesc `json:"replay_descs"`
	LoadSeconds float64  `json:"load_s"`
	GenSeconds  float64  `json:"gen_s"`
}

func cmdGen(args []string) {
	fs := flag.NewFlagSet("gen", flag.ExitOnError)
	repo := fs.String("repo", "/repo", "repository root")
	out := fs.String("o", "", "output JSON file (default stdout)")
	pkgs := fs.String("pkgs", roPath, "comma separated package patterns")
	layers := fs.String("layers", "K,M,P", "layers to generate")
	only := fs.String("only", "", "only units whose name contains this string")
	props := fs.String("props", "", "only obligations tagged with one of these properties (comma separated)")
	fs.BoolVar(&debugPaths, "debug", false, "print the paths of every unit to stderr")
	fs.Parse(args)

	t0 := time.Now()
	w, err := loadWorld(*repo, strings.Split(*pkgs, ","))
	if err != nil {
		fmt.Fprintln(os.Stderr, "load:", err)
		os.Exit(3)
	}
	loadS := time.Since(t0).Seconds()
	t1 := time.Now()
	blocks, files, err := loadContracts(w)
	if err != nil {
		fmt.Fprintln(os.Stderr, "contracts:", err)
		os.Exit(3)
	}
	res := GenOutput{Repo: *repo, Packages: strings.Split(*pkgs, ","), LoadSeconds: loadS}
	for _, f := range files {
		res.Contracts = append(res.Contracts, shortFile(f))
	}
	want := map[string]bool{}
	for _, p := range strings.Split(*props, ",") {
		if p != "" {
			want[p] = true
		}
	}
	layerOn := map[string]bool{}
	for _, l := range strings.Split(*layers, ",") {
		layerOn[l] = true
	}
	kc, err := newKernelCtx(w, blocks)
	if err != nil {
		fmt.Fprintln(os.Stderr, "contracts:", err)
		os.Exit(3)
	}
	var units []*Unit
	if layerOn["K"] {
		for _, b := range blocks {
			if b.Kind != "func" {
				continue
			}
			if *only != "" && !strings.Contains(b.Name, *only) {
				continue
			}
			if len(want) > 0 && !anyProp(b, want) {
				continue
			}
			units = append(units, kc.runFunc(b))
		}
	}
	if layerOn["M"] {
		units = append(units, runMachines(kc, blocks, *only, want)...)
		for _, b := range blocks {
			if b.Kind != "operator" || (*only != "" && !strings.Contains(b.Name, *only)) || (len(want) > 0 && !anyProp(b, want)) {
				continue
			}
			if d := buildReplayDesc(kc, b); d != nil {
				res.Replay = append(res.Replay, d)
			}
		}
	}
	if layerOn["P"] {
		units = append(units, runProtocol(kc, blocks, *only, want)...)
	}
	funcs := map[string]bool{}
	for _, u := range units {
		for _, f := range u.Funcs {
			funcs[f] = true
		}
		for _, e := range u.Errs {
			res.Errors = append(res.Errors, u.Name+": "+e)
		}
		if u.Rebound != "" {
			res.Rebound = append(res.Rebound, u.Name+": "+u.Rebound)
		}
		for _, o := range u.Obls {
			if len(want) > 0 {
				keep := false
				for _, p := range o.Props {
					if want[p] {
						keep = true
					}
				}
				if !keep {
					continue
				}
			}
			res.Obligations = append(res.Obligations, o)
		}
	}
	for f := range funcs {
		res.Funcs = append(res.Funcs, f)
	}
	sort.Strings(res.Funcs)
	res.Assumed = assumedScan(blocks)
	res.GenSeconds = time.Since(t1).Seconds()
	enc := json.NewEncoder(os.Stdout)
	if *out != "" {
		f, err := os.Create(*out)
		if err != nil {
			fmt.Fprintln(os.Stderr, err)
			os.Exit(3)
		}
		defer f.Close()
		enc = json.NewEncoder(f)
	}
	enc.SetIndent("", " ")
	enc.Encode(res)
}

func anyProp(b *Block, want map[string]bool) bool {
	for _, p := range b.props() {
		if want[p] {
			return true
		}
	}
	for _, c := range b.Clauses {
		if strings.Contains(c.Label, "|") {
			_, ps := clauseLabel(c, 0)
			for _, p := range ps {
				if want[p] {
					return true
				}
			}
		}
	}
	return false
}

// assumedScan lists every assumption the contract files introduce: pure (uninterpreted) callees,
// `assume` clauses, `free` fields, `trusted` notes.
func assumedScan(blocks []*Block) []string {
	var out []string
	for _, b := range blocks {
		if b.Kind == "pure" {
			out = append(out, fmt.Sprintf("pure %s (callee abstracted as an uninterpreted function) %s:%d", b.Name, shortFile(b.File), b.Line))
		}
		for _, c := range b.Clauses {
			switch c.Kind {
			case "assume", "trusted", "free", "given", "assume-ctx-set", "ctx-exempt", "handoff", "resubscribes", "hot", "assume-released", "assume-seq":
				out = append(out, fmt.Sprintf("%s %s in %s %s (%s:%d)", c.Kind, c.Text, b.Kind, b.Name, shortFile(c.File), c.Line))
			}
		}
	}
	sort.Strings(out)
	return out
}
