package main

import (
	"fmt"
	"go/ast"
	"go/token"
	"go/types"
	"regexp"
	"strings"

	"golang.org/x/tools/go/ssa"
)

// ---------------------------------------------------------------------------
// Replay descriptors: for every operator under a machine contract, what a generated Go test needs in
// order to (a) instantiate the real operator with deterministic stub callbacks and (b) run the
// contract machine as an executable reference on the same input script. Used to replay failed
// obligations on the real code and, in the thorough tier, to validate the contracts themselves.
// ---------------------------------------------------------------------------

type ReplayParam struct {
	Name string `json:"name"`
	Kind string `json:"kind"` // int | value | func | ctx | other
	Go   string `json:"go"`   // Go type with type parameters instantiated to int
	Sig  string `json:"sig,omitempty"`
	// for funcs: parameter and result kinds
	Params  []string `json:"params,omitempty"`
	Results []string `json:"results,omitempty"`
}

type ReplayCase struct {
	Role    string     `json:"role"`
	Params  []string   `json:"params"`
	Guard   string     `json:"guard"` // Go expression (bool)
	Emits   [][]string `json:"emits"` // each: kind, arg exprs... ("_" = wildcard)
	Updates [][2]string `json:"updates"`
}

type ReplayDesc struct {
	Op         string        `json:"op"`
	Pkg        string        `json:"pkg"`
	TypeParams int           `json:"type_params"`
	Params     []ReplayParam `json:"params"`
	Ghosts     []opGhost     `json:"ghosts"`
	GhostInit  []string      `json:"ghost_init"`
	Requires   []string      `json:"requires"`
	Cases      []ReplayCase  `json:"cases"`
	Interp     bool          `json:"interpretable"`
	Why        string        `json:"why,omitempty"`
	Props      []string      `json:"props"`
	InElem     string        `json:"in_elem"` // element type of the source the operator is applied to
	OutElem    string        `json:"out_elem"`
}

func kindOfType(t types.Type) string {
	if isContextType(t) {
		return "ctx"
	}
	if _, ok := t.(*types.TypeParam); ok {
		return "value"
	}
	switch u := t.Underlying().(type) {
	case *types.Basic:
		if u.Info()&types.IsInteger != 0 {
			return "int"
		}
		if u.Info()&types.IsBoolean != 0 {
			return "bool"
		}
	case *types.Signature:
		return "func"
	case *types.Interface:
		if n, ok := t.(*types.Named); ok && n.Obj().Name() == "error" {
			return "error"
		}
	}
	if n, ok := t.(*types.Named); ok && n.Obj().Name() == "error" {
		return "error"
	}
	return "other"
}

func goTypeInt(t types.Type) string {
	s := types.TypeString(t, func(p *types.Package) string {
		if p.Path() == roPath {
			return ""
		}
		return p.Name()
	})
	// instantiate type parameters with int
	tpRe := regexp.MustCompile(`\b[A-Z][A-Za-z0-9]?\b`)
	return tpRe.ReplaceAllStringFunc(s, func(m string) string {
		if len(m) <= 2 && m != "T2" {
			return "int"
		}
		return m
	})
}

// goExpr translates a contract expression into Go source over the harness' variables.
type goTr struct {
	ghosts  map[string]string // name -> sort
	params  map[string]bool   // callback parameter names
	opPar   map[string]string // operator parameter -> kind
	userFn  map[string]bool
	ok      bool
	why     string
}

func (g *goTr) fail(format string, a ...interface{}) string {
	if g.ok {
		g.ok = false
		g.why = fmt.Sprintf(format, a...)
	}
	return "nil"
}

func (g *goTr) expr(e ast.Expr) string {
	switch t := e.(type) {
	case *ast.ParenExpr:
		return "(" + g.expr(t.X) + ")"
	case *ast.BasicLit:
		if t.Kind == token.INT {
			return "int64(" + t.Value + ")"
		}
		return t.Value
	case *ast.Ident:
		name := t.Name
		switch name {
		case "true", "false", "nil":
			return name
		case "_":
			return "wild"
		}
		if strings.HasSuffix(name, "__post") {
			return g.fail("primed variable in an interpreted position")
		}
		if _, ok := g.ghosts[name]; ok {
			return "g_" + name
		}
		if g.params[name] {
			return "p_" + name
		}
		if _, ok := g.opPar[name]; ok {
			return "o_" + name
		}
		if strings.HasPrefix(name, "Err") {
			return "error(" + name + ")"
		}
		return g.fail("identifier %s is implementation state (a cell), not part of the abstract machine", name)
	case *ast.UnaryExpr:
		switch t.Op {
		case token.NOT:
			return "!asBool(" + g.expr(t.X) + ")"
		case token.SUB:
			return "-asInt(" + g.expr(t.X) + ")"
		}
	case *ast.BinaryExpr:
		a, b := g.expr(t.X), g.expr(t.Y)
		switch t.Op {
		case token.LAND:
			return "(asBool(" + a + ") && asBool(" + b + "))"
		case token.LOR:
			return "(asBool(" + a + ") || asBool(" + b + "))"
		case token.EQL:
			return "same(" + a + ", " + b + ")"
		case token.NEQ:
			return "!same(" + a + ", " + b + ")"
		case token.LSS, token.LEQ, token.GTR, token.GEQ:
			return "(asInt(" + a + ") " + t.Op.String() + " asInt(" + b + "))"
		case token.ADD, token.SUB, token.MUL:
			return "(asInt(" + a + ") " + t.Op.String() + " asInt(" + b + "))"
		}
	case *ast.CallExpr:
		fname := exprString(t.Fun)
		var args []string
		for _, a := range t.Args {
			args = append(args, g.expr(a))
		}
		if fname == "imp" && len(args) == 2 {
			return "(!asBool(" + args[0] + ") || asBool(" + args[1] + "))"
		}
		if m := regexp.MustCompile(`^(.*)_([0-9])$`).FindStringSubmatch(fname); m != nil && g.userFn[m[1]] {
			return "uf_" + m[1] + "(" + strings.Join(args, ", ") + ")[" + m[2] + "]"
		}
		switch fname {
		case "add_T":
			return "(asInt(" + args[0] + ") + asInt(" + args[1] + "))"
		case "lt_T":
			return "(asInt(" + args[0] + ") < asInt(" + args[1] + "))"
		case "gt_T":
			return "(asInt(" + args[0] + ") > asInt(" + args[1] + "))"
		case "ctx_WithValue":
			return "ctxWith(" + strings.Join(args, ", ") + ")"
		case "fields":
			return "fieldsPat(" + strings.Join(args, ", ") + ")"
		}
		return g.fail("function %s has no executable meaning", fname)
	case *ast.SelectorExpr:
		return g.fail("selector %s refers to implementation state", exprString(t))
	}
	return g.fail("expression form %T", e)
}

func buildReplayDesc(kc *kernelCtx, b *Block) *ReplayDesc {
	sp, err := parseOpSpec(b)
	if err != nil {
		return nil
	}
	fns := kc.w.allFuncs(b.Pkg)
	top := fns[b.Name]
	if top == nil {
		return nil
	}
	d := &ReplayDesc{Op: b.Name, Pkg: b.Pkg, Interp: true, Props: b.props(), Ghosts: sp.Ghosts}
	if top.Signature.TypeParams() != nil {
		d.TypeParams = top.Signature.TypeParams().Len()
	} else if tp := top.TypeParams(); tp != nil {
		d.TypeParams = tp.Len()
	}
	tr := &goTr{ghosts: map[string]string{}, params: map[string]bool{}, opPar: map[string]string{}, userFn: map[string]bool{}, ok: true}
	for _, g := range sp.Ghosts {
		tr.ghosts[g.Name] = g.Sort
	}
	sig := top.Signature
	for i := 0; i < sig.Params().Len(); i++ {
		p := sig.Params().At(i)
		rp := ReplayParam{Name: p.Name(), Kind: kindOfType(p.Type()), Go: goTypeInt(p.Type())}
		if fs, ok := p.Type().Underlying().(*types.Signature); ok {
			rp.Kind = "func"
			for j := 0; j < fs.Params().Len(); j++ {
				rp.Params = append(rp.Params, kindOfType(fs.Params().At(j).Type()))
			}
			for j := 0; j < fs.Results().Len(); j++ {
				rp.Results = append(rp.Results, kindOfType(fs.Results().At(j).Type()))
			}
			tr.userFn[p.Name()] = true
		}
		if sig.Variadic() && i == sig.Params().Len()-1 {
			rp.Kind = "other"
		}
		if rp.Kind == "other" {
			d.Interp = false
			d.Why = "operator parameter " + p.Name() + " of type " + rp.Go + " cannot be synthesised"
		}
		tr.opPar[p.Name()] = rp.Kind
		d.Params = append(d.Params, rp)
	}
	// the operator must be a func(params) func(Observable[T]) Observable[R]
	res := sig.Results()
	if res.Len() != 1 {
		d.Interp = false
		d.Why = "not an operator constructor"
	} else if fs, ok := res.At(0).Type().Underlying().(*types.Signature); !ok || fs.Params().Len() != 1 {
		d.Interp = false
		d.Why = "not an operator constructor (creation operators are not replayed by this harness)"
	} else {
		// element type of the input observable
		in := fs.Params().At(0).Type()
		d.InElem = "int"
		s := goTypeInt(in)
		if strings.HasPrefix(s, "Observable[") {
			d.InElem = strings.TrimSuffix(strings.TrimPrefix(s, "Observable["), "]")
		}
		if d.InElem != "int" {
			d.Interp = false
			d.Why = "input element type " + d.InElem + " is not synthesised by the harness"
		}
		d.OutElem = "int"
		if fs.Results().Len() == 1 {
			so := goTypeInt(fs.Results().At(0).Type())
			if strings.HasPrefix(so, "Observable[") {
				d.OutElem = strings.TrimSuffix(strings.TrimPrefix(so, "Observable["), "]")
			}
		}
	}
	for _, g := range sp.Ghosts {
		init := g.Init
		if init == "" {
			init = "nil"
		}
		ex, err := parseSpecExpr(init)
		if err != nil {
			d.Interp = false
			d.Why = err.Error()
			continue
		}
		d.GhostInit = append(d.GhostInit, tr.expr(ex))
	}
	for _, c := range sp.Requires {
		ex, err := parseSpecExpr(c.Text)
		if err == nil {
			d.Requires = append(d.Requires, tr.expr(ex))
		}
	}
	if len(sp.Track) > 0 || len(sp.Alias) > 0 {
		// the contract speaks about more than the downstream notifications of one subscription (attempt loops, nested
		// subscriptions, timers): the script harness cannot play it
		d.Interp = false
		d.Why = "the contract tracks events other than downstream notifications"
	}
	cases := append([]opCase{}, sp.Cases...)
	have := map[string]bool{}
	for _, c := range cases {
		have[c.Role] = true
	}
	if !have["error"] {
		cases = append(cases, opCase{Role: "error", Params: []string{"ctx", "err"}, Emits: []string{"Error(ctx, err)"}})
	}
	if !have["complete"] {
		cases = append(cases, opCase{Role: "complete", Params: []string{"ctx"}, Emits: []string{"Complete(ctx)"}})
	}
	for _, c := range cases {
		if strings.Contains(c.Role, "@") || c.Role == "subscribe" {
			d.Interp = false
			d.Why = "multi-source / subscribe-time roles are not driven by this harness"
			continue
		}
		tr.params = map[string]bool{}
		for _, p := range c.Params {
			tr.params[p] = true
		}
		rc := ReplayCase{Role: c.Role, Params: c.Params, Guard: "true"}
		if c.Guard != "" {
			ex, err := parseSpecExpr(c.Guard)
			if err != nil {
				d.Interp = false
				continue
			}
			rc.Guard = tr.expr(ex)
		}
		for _, em := range c.Emits {
			ex, err := parseSpecExpr(em)
			if err != nil {
				d.Interp = false
				continue
			}
			if regexp.MustCompile(`(^|[^A-Za-z0-9_])_([^A-Za-z0-9_]|$)`).MatchString(em) {
				// a wildcard (a clock reading, an opaque field): the script harness cannot predict the value
				d.Interp = false
				d.Why = "emits pattern " + em + " leaves a value unspecified"
				continue
			}
			call, ok := ex.(*ast.CallExpr)
			if !ok {
				d.Interp = false
				d.Why = "emits pattern " + em + " is not a notification"
				continue
			}
			ev := []string{exprString(call.Fun)}
			for _, a := range call.Args {
				ev = append(ev, tr.expr(a))
			}
			rc.Emits = append(rc.Emits, ev)
		}
		for _, up := range c.Updates {
			ex, err := parseSpecExpr(up[1])
			if err != nil {
				d.Interp = false
				continue
			}
			rc.Updates = append(rc.Updates, [2]string{up[0], tr.expr(ex)})
		}
		d.Cases = append(d.Cases, rc)
	}
	if !tr.ok {
		d.Interp = false
		d.Why = tr.why
	}
	return d
}

var _ = ssa.BuilderMode(0)
