// Replay witnesses for operator obligations (layers M / D / P) whose contract machine is not executable by the
// generated script harness: a hand-written reference definition per operator, compared with the real operator on
// every input script up to length 4 over {0,1,2} with the endings complete / error / none, for every small parameter
// value. They never decide a pass: the check runs TestWitnessOperators/<Operator> only after an obligation of that
// operator failed (or its contract stopped binding), to find a concrete failing input.
// Mapped to /repo/zz_rovc_opwitness_test.go (package ro) by `go test -overlay`.
package ro

import (
	"context"
	"errors"
	"fmt"
	"sort"
	"strings"
	"testing"
)

var owErr = errors.New("ow-source-error")

type owScript struct {
	vals []int
	end  string // "C", "E", ""
}

func owScripts(maxLen int) []owScript {
	var out []owScript
	var rec func(p []int)
	rec = func(p []int) {
		for _, e := range []string{"C", "E", ""} {
			out = append(out, owScript{append([]int{}, p...), e})
		}
		if len(p) == maxLen {
			return
		}
		for v := 0; v < 3; v++ {
			rec(append(p, v))
		}
	}
	rec(nil)
	return out
}

func owSource(s owScript) Observable[int] {
	return NewUnsafeObservable(func(o Observer[int]) Teardown {
		for _, v := range s.vals {
			o.Next(v)
		}
		switch s.end {
		case "C":
			o.Complete()
		case "E":
			o.Error(owErr)
		}
		return nil
	})
}

func owRun[R any](o Observable[R]) []string {
	var tr []string
	o.Subscribe(NewObserver(
		func(v R) { tr = append(tr, fmt.Sprintf("N%v", v)) },
		func(err error) {
			if errors.Is(err, owErr) {
				tr = append(tr, "E")
			} else {
				tr = append(tr, "E:"+err.Error())
			}
		},
		func() { tr = append(tr, "C") },
	))
	return tr
}

// owRunTwice subscribes the same observable twice: both subscriptions must see the same notifications (C12).
func owRunTwice[R any](o Observable[R]) []string {
	a := owRun(o)
	b := owRun(o)
	if fmt.Sprint(a) != fmt.Sprint(b) {
		return append(append([]string{}, a...), "SECOND-SUBSCRIPTION-DIFFERS:"+fmt.Sprint(b))
	}
	return a
}

func owEnd(tr []string, s owScript) []string {
	switch s.end {
	case "C":
		return append(tr, "C")
	case "E":
		return append(tr, "E")
	}
	return tr
}

// TestWitnessOperators: one subtest per operator.
func TestWitnessOperators(t *testing.T) {
	type op struct {
		name   string
		params []int
		build  func(p int) func(Observable[int]) []string // real operator, trace of its output on a source
		ref    func(p int, s owScript) []string
	}
	ints := func(vs []int) []string {
		var o []string
		for _, v := range vs {
			o = append(o, fmt.Sprintf("N%d", v))
		}
		return o
	}
	ops := []op{
		{"TakeLast", []int{1, 2, 3}, func(p int) func(Observable[int]) []string {
			op := TakeLast[int](p) // one operator value for every script: state kept in it leaks from one subscription to the next
			return func(src Observable[int]) []string { return owRunTwice(op(src)) }
		}, func(p int, s owScript) []string {
			if s.end == "C" {
				from := len(s.vals) - p
				if from < 0 {
					from = 0
				}
				return append(ints(s.vals[from:]), "C")
			}
			return owEnd(nil, s)
		}},
		{"SkipLast", []int{1, 2, 3}, func(p int) func(Observable[int]) []string {
			op := SkipLast[int](p) // one operator value for every script: state kept in it leaks from one subscription to the next
			return func(src Observable[int]) []string { return owRunTwice(op(src)) }
		}, func(p int, s owScript) []string {
			n := len(s.vals) - p
			if n < 0 {
				n = 0
			}
			return owEnd(ints(s.vals[:n]), s)
		}},
		{"Distinct", []int{0}, func(p int) func(Observable[int]) []string {
			op := Distinct[int]() // one operator value for every script: state kept in it leaks from one subscription to the next
			return func(src Observable[int]) []string { return owRunTwice(op(src)) }
		}, func(p int, s owScript) []string {
			seen := map[int]bool{}
			var o []int
			for _, v := range s.vals {
				if !seen[v] {
					seen[v] = true
					o = append(o, v)
				}
			}
			return owEnd(ints(o), s)
		}},
		{"DistinctByWithContext", []int{0}, func(p int) func(Observable[int]) []string {
			op := DistinctBy(func(v int) int { return v % 2 }) // one operator value for every script: state kept in it leaks from one subscription to the next
			return func(src Observable[int]) []string { return owRunTwice(op(src)) }
		}, func(p int, s owScript) []string {
			seen := map[int]bool{}
			var o []int
			for _, v := range s.vals {
				if !seen[v%2] {
					seen[v%2] = true
					o = append(o, v)
				}
			}
			return owEnd(ints(o), s)
		}},
		{"Pairwise", []int{0}, func(p int) func(Observable[int]) []string {
			op := Pairwise[int]() // one operator value for every script: state kept in it leaks from one subscription to the next
			return func(src Observable[int]) []string { return owRunTwice(op(src)) }
		}, func(p int, s owScript) []string {
			var o []string
			for i := 1; i < len(s.vals); i++ {
				o = append(o, fmt.Sprintf("N[%d %d]", s.vals[i-1], s.vals[i]))
			}
			return owEnd(o, s)
		}},
		{"BufferWithCount", []int{1, 2, 3}, func(p int) func(Observable[int]) []string {
			op := BufferWithCount[int](p) // one operator value for every script: state kept in it leaks from one subscription to the next
			return func(src Observable[int]) []string { return owRunTwice(op(src)) }
		}, func(p int, s owScript) []string {
			var o []string
			var buf []int
			for _, v := range s.vals {
				buf = append(buf, v)
				if len(buf) == p {
					o = append(o, fmt.Sprintf("N%v", buf))
					buf = nil
				}
			}
			if s.end == "C" && len(buf) > 0 {
				o = append(o, fmt.Sprintf("N%v", buf))
			}
			return owEnd(o, s)
		}},
		{"StartWith", []int{0, 1, 2}, func(p int) func(Observable[int]) []string {
			op := StartWith([]int{7, 8}[:p]...) // one operator value for every script: state kept in it leaks from one subscription to the next
			return func(src Observable[int]) []string { return owRunTwice(op(src)) }
		}, func(p int, s owScript) []string {
			return owEnd(append(ints([]int{7, 8}[:p]), ints(s.vals)...), s)
		}},
		{"EndWith", []int{0, 1, 2}, func(p int) func(Observable[int]) []string {
			op := EndWith([]int{7, 8}[:p]...) // one operator value for every script: state kept in it leaks from one subscription to the next
			return func(src Observable[int]) []string { return owRunTwice(op(src)) }
		}, func(p int, s owScript) []string {
			o := ints(s.vals)
			if s.end == "C" {
				o = append(o, ints([]int{7, 8}[:p])...)
			}
			return owEnd(o, s)
		}},
		{"ToSlice", []int{0}, func(p int) func(Observable[int]) []string {
			op := ToSlice[int]() // one operator value for every script: state kept in it leaks from one subscription to the next
			return func(src Observable[int]) []string { return owRunTwice(op(src)) }
		}, func(p int, s owScript) []string {
			if s.end == "C" {
				vs := s.vals
				if vs == nil {
					vs = []int{}
				}
				return []string{fmt.Sprintf("N%v", vs), "C"}
			}
			return owEnd(nil, s)
		}},
		{"ToMapIWithContext", []int{0}, func(p int) func(Observable[int]) []string {
			op := ToMapI(func(v int, i int64) (int, string) { return v % 2, fmt.Sprintf("%d@%d", v, i) }) // one operator value for every script (C12)
			return func(src Observable[int]) []string {
				var tr []string
				op(src).Subscribe(NewObserver(
					func(m map[int]string) {
						var ks []int
						for k := range m {
							ks = append(ks, k)
						}
						sort.Ints(ks)
						e := "N"
						for _, k := range ks {
							e += fmt.Sprintf("%d=%s;", k, m[k])
						}
						tr = append(tr, e)
					},
					func(error) { tr = append(tr, "E") }, func() { tr = append(tr, "C") }))
				return tr
			}
		}, func(p int, s owScript) []string {
			if s.end != "C" {
				return owEnd(nil, s)
			}
			m := map[int]string{}
			for i, v := range s.vals {
				m[v%2] = fmt.Sprintf("%d@%d", v, i)
			}
			e := "N"
			for _, k := range []int{0, 1} {
				if x, ok := m[k]; ok {
					e += fmt.Sprintf("%d=%s;", k, x)
				}
			}
			return []string{e, "C"}
		}},
		{"SkipWhileIWithContext", []int{0}, func(p int) func(Observable[int]) []string {
			op := SkipWhileI(func(v int, i int64) bool { return v == 0 && i < 2 }) // one operator value for every script: state kept in it leaks from one subscription to the next
			return func(src Observable[int]) []string { return owRunTwice(op(src)) }
		}, func(p int, s owScript) []string {
			var o []int
			skipping := true
			for i, v := range s.vals {
				if skipping && v == 0 && i < 2 {
					continue
				}
				skipping = false
				o = append(o, v)
			}
			return owEnd(ints(o), s)
		}},
		{"Flatten", []int{0}, func(p int) func(Observable[int]) []string {
			return func(src Observable[int]) []string {
				return owRun(Flatten[int]()(Map(func(v int) []int { return []int{v, v + 10}[:v%3] })(src)))
			}
		}, func(p int, s owScript) []string {
			var o []int
			for _, v := range s.vals {
				o = append(o, []int{v, v + 10}[:v%3]...)
			}
			return owEnd(ints(o), s)
		}},
		{"Average", []int{0}, func(p int) func(Observable[int]) []string {
			op := Average[int]() // one operator value for every script: state kept in it leaks from one subscription to the next
			return func(src Observable[int]) []string { return owRunTwice(op(src)) }
		}, func(p int, s owScript) []string {
			if s.end != "C" {
				return owEnd(nil, s)
			}
			if len(s.vals) == 0 {
				return []string{"NNaN", "C"}
			}
			sum := 0.0
			for _, v := range s.vals {
				sum += float64(v)
			}
			return []string{fmt.Sprintf("N%v", sum/float64(len(s.vals))), "C"}
		}},
		{"ConcatWith", []int{0, 1}, func(p int) func(Observable[int]) []string {
			op := ConcatWith([]Observable[int]{Just(7, 8)}[:p]...) // one operator value for every script: state kept in it leaks from one subscription to the next
			return func(src Observable[int]) []string { return owRunTwice(op(src)) }
		}, func(p int, s owScript) []string {
			o := ints(s.vals)
			if s.end == "C" {
				if p == 1 {
					o = append(o, "N7", "N8")
				}
				return append(o, "C")
			}
			return owEnd(o, s)
		}},
		{"MergeWith1", []int{0}, func(p int) func(Observable[int]) []string {
			op := MergeWith1(Just(7, 8)) // one operator value for every script: state kept in it leaks from one subscription to the next
			return func(src Observable[int]) []string { return owRunTwice(op(src)) }
		}, func(p int, s owScript) []string {
			o := ints(s.vals)
			switch s.end {
			case "C":
				return append(o, "N7", "N8", "C")
			case "E":
				return append(o, "E")
			}
			return append(o, "N7", "N8")
		}},
		{"Catch", []int{0}, func(p int) func(Observable[int]) []string {
			op := Catch(func(err error) Observable[int] { return Just(7) }) // one operator value for every script: state kept in it leaks from one subscription to the next
			return func(src Observable[int]) []string { return owRunTwice(op(src)) }
		}, func(p int, s owScript) []string {
			o := ints(s.vals)
			switch s.end {
			case "C":
				return append(o, "C")
			case "E":
				return append(o, "N7", "C")
			}
			return o
		}},
		{"RepeatWith", []int{1, 2, 3}, func(p int) func(Observable[int]) []string {
			op := RepeatWith[int](int64(p)) // one operator value for every script: state kept in it leaks from one subscription to the next
			return func(src Observable[int]) []string { return owRunTwice(op(src)) }
		}, func(p int, s owScript) []string {
			var o []string
			switch s.end {
			case "C":
				for i := 0; i < p; i++ {
					o = append(o, ints(s.vals)...)
				}
				return append(o, "C")
			case "E":
				return append(ints(s.vals), "E")
			}
			return nil // a source that neither completes nor fails blocks RepeatWith: not driven
		}},
		{"RetryWithConfig", []int{1, 2}, func(p int) func(Observable[int]) []string {
			op := RetryWithConfig[int](RetryConfig{MaxRetries: uint64(p)}) // one operator value for every script: state kept in it leaks from one subscription to the next
			return func(src Observable[int]) []string { return owRunTwice(op(src)) }
		}, func(p int, s owScript) []string {
			var o []string
			switch s.end {
			case "C":
				return append(ints(s.vals), "C")
			case "E":
				for i := 0; i <= p; i++ {
					o = append(o, ints(s.vals)...)
				}
				return append(o, "E")
			}
			return nil
		}},
		{"DefaultIfEmptyWithContext", []int{0}, func(p int) func(Observable[int]) []string {
			op := DefaultIfEmpty(9) // one operator value for every script: state kept in it leaks from one subscription to the next
			return func(src Observable[int]) []string { return owRunTwice(op(src)) }
		}, func(p int, s owScript) []string {
			if s.end == "C" && len(s.vals) == 0 {
				return []string{"N9", "C"}
			}
			return owEnd(ints(s.vals), s)
		}},
		{"GroupByIWithContext", []int{0}, func(p int) func(Observable[int]) []string {
			return func(src Observable[int]) []string {
				var tr []string
				GroupBy(func(v int) int { return v % 2 })(src).Subscribe(NewObserver(
					func(g Observable[int]) {
						id := len(tr)
						_ = id
						g.Subscribe(NewObserver(
							func(v int) { tr = append(tr, fmt.Sprintf("g%d:N%d", v%2, v)) },
							func(error) { tr = append(tr, "g:E") },
							func() { tr = append(tr, "g:C") }))
					},
					func(error) { tr = append(tr, "E") }, func() { tr = append(tr, "C") }))
				return tr
			}
		}, func(p int, s owScript) []string {
			var o []string
			groups := map[int]bool{}
			for _, v := range s.vals {
				groups[v%2] = true
				o = append(o, fmt.Sprintf("g%d:N%d", v%2, v))
			}
			switch s.end {
			case "C":
				for range groups {
					o = append(o, "g:C")
				}
				o = append(o, "C")
			case "E":
				for range groups {
					o = append(o, "g:E")
				}
				o = append(o, "E")
			}
			return o
		}},
	}
	for _, o := range ops {
		o := o
		if o.ref == nil {
			continue
		}
		t.Run(o.name, func(t *testing.T) {
			fails := 0
			for _, p := range o.params {
				f := o.build(p)
				for _, s := range owScripts(4) {
					if s.end == "" && (o.name == "RepeatWith" || o.name == "RetryWithConfig" || o.name == "ConcatWith") {
						continue // these operators wait for the end of each source inside Subscribe: an endless script blocks them
					}
					want := o.ref(p, s)
					got := f(owSource(s))
					if fmt.Sprint(got) != fmt.Sprint(want) {
						fails++
						fmt.Printf("REPLAY-FAIL %s(%d) script=%v ending=%q: got %v, the definition gives %v\n", o.name, p, s.vals, s.end, got, want)
						if fails >= 3 {
							t.Fatalf("%d mismatches", fails)
						}
					}
				}
			}
			if fails > 0 {
				t.Fatalf("%d mismatches", fails)
			}
			fmt.Printf("REPLAY-OK %s\n", o.name)
		})
	}
}

var _ = context.Background

// ---------------------------------------------------------------------------------------------------------------
// Two-source operators: every interleaving of notifications of two subjects a and b up to length 5 over
// {a.Next(0), a.Next(1), b.Next(0), b.Next(1), a.Complete, b.Complete, a.Error, b.Error} (notifications after a
// subject's own terminal are skipped), against the sequential definition of the operator.
// ---------------------------------------------------------------------------------------------------------------

type ow2Ev struct {
	src  byte // 'a' or 'b'
	kind byte // 'N', 'C', 'E'
	val  int
}

func (e ow2Ev) String() string {
	if e.kind == 'N' {
		return fmt.Sprintf("%c.N%d", e.src, e.val)
	}
	return fmt.Sprintf("%c.%c", e.src, e.kind)
}

func ow2Scripts(maxLen int) [][]ow2Ev {
	alpha := []ow2Ev{{'a', 'N', 0}, {'a', 'N', 1}, {'b', 'N', 0}, {'b', 'N', 1}, {'a', 'C', 0}, {'b', 'C', 0}, {'a', 'E', 0}, {'b', 'E', 0}}
	var out [][]ow2Ev
	var rec func(p []ow2Ev, doneA, doneB bool)
	rec = func(p []ow2Ev, doneA, doneB bool) {
		if len(p) > 0 {
			out = append(out, append([]ow2Ev{}, p...))
		}
		if len(p) == maxLen {
			return
		}
		for _, e := range alpha {
			if (e.src == 'a' && doneA) || (e.src == 'b' && doneB) {
				continue
			}
			rec(append(p, e), doneA || (e.src == 'a' && e.kind != 'N'), doneB || (e.src == 'b' && e.kind != 'N'))
		}
	}
	rec(nil, false, false)
	return out
}

func TestWitnessTwoSourceOperators(t *testing.T) {
	type op struct {
		name  string
		build func(a, b Observable[int]) Observable[string]
		ref   func(script []ow2Ev) []string
	}
	str := func(o Observable[int]) Observable[string] {
		return Map(func(v int) string { return fmt.Sprint(v) })(o)
	}
	ops := []op{
		{"Zip2", func(a, b Observable[int]) Observable[string] {
			return Map(func(v interface{ Unpack() (int, int) }) string {
				x, y := v.Unpack()
				return fmt.Sprintf("(%d,%d)", x, y)
			})(
				Map(func(v any) interface{ Unpack() (int, int) } { return v.(interface{ Unpack() (int, int) }) })(ow2Any(Zip2(a, b))))
		}, func(sc []ow2Ev) []string {
			var qa, qb []int
			doneA, doneB := false, false
			var out []string
			for _, e := range sc {
				switch {
				case e.kind == 'E':
					return append(out, "E")
				case e.kind == 'N' && e.src == 'a':
					qa = append(qa, e.val)
				case e.kind == 'N' && e.src == 'b':
					qb = append(qb, e.val)
				case e.kind == 'C' && e.src == 'a':
					doneA = true
					if len(qa) == 0 {
						return append(out, "C")
					}
				case e.kind == 'C' && e.src == 'b':
					doneB = true
					if len(qb) == 0 {
						return append(out, "C")
					}
				}
				if len(qa) > 0 && len(qb) > 0 {
					out = append(out, fmt.Sprintf("N(%d,%d)", qa[0], qb[0]))
					qa, qb = qa[1:], qb[1:]
					if (doneA && len(qa) == 0) || (doneB && len(qb) == 0) {
						return append(out, "C")
					}
				}
			}
			return out
		}},
		{"ZipVariadic", func(a, b Observable[int]) Observable[string] {
			return Map(func(v []int) string { return fmt.Sprintf("(%d,%d)", v[0], v[1]) })(Zip(a, b))
		}, nil},
		{"ZipAll", func(a, b Observable[int]) Observable[string] {
			return Map(func(v []int) string { return fmt.Sprintf("(%d,%d)", v[0], v[1]) })(ZipAll[int]()(Of(a, b)))
		}, nil},
		{"ZipVariadicTake1", func(a, b Observable[int]) Observable[string] {
			return Map(func(v []int) string { return fmt.Sprintf("(%d,%d)", v[0], v[1]) })(Take[[]int](1)(Zip(a, b)))
		}, nil},
		{"ZipAllTake1", func(a, b Observable[int]) Observable[string] {
			return Map(func(v []int) string { return fmt.Sprintf("(%d,%d)", v[0], v[1]) })(Take[[]int](1)(ZipAll[int]()(Of(a, b))))
		}, nil},
		{"Zip3", func(a, b Observable[int]) Observable[string] {
			// the further sources are cold and longer than any script: the typed Zip3 then has the definition of Zip2 on a and b
			return Map(func(v any) string {
				x, y, _ := v.(interface{ Unpack() (int, int, int) }).Unpack()
				return fmt.Sprintf("(%d,%d)", x, y)
			})(ow2Any(Zip3(a, b, Just(0, 1, 2, 3, 4, 5, 6, 7))))
		}, nil},
		{"Zip4", func(a, b Observable[int]) Observable[string] {
			// the further sources are cold and longer than any script: the typed Zip4 then has the definition of Zip2 on a and b
			return Map(func(v any) string {
				x, y, _, _ := v.(interface{ Unpack() (int, int, int, int) }).Unpack()
				return fmt.Sprintf("(%d,%d)", x, y)
			})(ow2Any(Zip4(a, b, Just(0, 1, 2, 3, 4, 5, 6, 7), Just(0, 1, 2, 3, 4, 5, 6, 7))))
		}, nil},
		{"Zip5", func(a, b Observable[int]) Observable[string] {
			// the further sources are cold and longer than any script: the typed Zip5 then has the definition of Zip2 on a and b
			return Map(func(v any) string {
				x, y, _, _, _ := v.(interface{ Unpack() (int, int, int, int, int) }).Unpack()
				return fmt.Sprintf("(%d,%d)", x, y)
			})(ow2Any(Zip5(a, b, Just(0, 1, 2, 3, 4, 5, 6, 7), Just(0, 1, 2, 3, 4, 5, 6, 7), Just(0, 1, 2, 3, 4, 5, 6, 7))))
		}, nil},
		{"Zip6", func(a, b Observable[int]) Observable[string] {
			// the further sources are cold and longer than any script: the typed Zip6 then has the definition of Zip2 on a and b
			return Map(func(v any) string {
				x, y, _, _, _, _ := v.(interface{ Unpack() (int, int, int, int, int, int) }).Unpack()
				return fmt.Sprintf("(%d,%d)", x, y)
			})(ow2Any(Zip6(a, b, Just(0, 1, 2, 3, 4, 5, 6, 7), Just(0, 1, 2, 3, 4, 5, 6, 7), Just(0, 1, 2, 3, 4, 5, 6, 7), Just(0, 1, 2, 3, 4, 5, 6, 7))))
		}, nil},
		{"CombineLatest2", func(a, b Observable[int]) Observable[string] {
			return Map(func(v interface{ Unpack() (int, int) }) string {
				x, y := v.Unpack()
				return fmt.Sprintf("(%d,%d)", x, y)
			})(
				Map(func(v any) interface{ Unpack() (int, int) } { return v.(interface{ Unpack() (int, int) }) })(ow2Any(CombineLatest2(a, b))))
		}, func(sc []ow2Ev) []string {
			hasA, hasB := false, false
			la, lb := 0, 0
			done := 0
			var out []string
			for _, e := range sc {
				switch e.kind {
				case 'E':
					return append(out, "E")
				case 'C':
					done++
					if done == 2 {
						return append(out, "C")
					}
				case 'N':
					if e.src == 'a' {
						hasA, la = true, e.val
					} else {
						hasB, lb = true, e.val
					}
					if hasA && hasB {
						out = append(out, fmt.Sprintf("N(%d,%d)", la, lb))
					}
				}
			}
			return out
		}},
		{"MergeWith1", func(a, b Observable[int]) Observable[string] { return str(MergeWith1(b)(a)) }, func(sc []ow2Ev) []string {
			done := 0
			var out []string
			for _, e := range sc {
				switch e.kind {
				case 'E':
					return append(out, "E")
				case 'C':
					done++
					if done == 2 {
						return append(out, "C")
					}
				case 'N':
					out = append(out, fmt.Sprintf("N%d", e.val))
				}
			}
			return out
		}},
		{"TakeUntil", func(a, b Observable[int]) Observable[string] { return str(TakeUntil[int](b)(a)) }, func(sc []ow2Ev) []string {
			var out []string
			for _, e := range sc {
				switch {
				case e.src == 'a' && e.kind == 'N':
					out = append(out, fmt.Sprintf("N%d", e.val))
				case e.src == 'a' && e.kind == 'C':
					return append(out, "C")
				case e.src == 'a' && e.kind == 'E':
					return append(out, "E")
				case e.src == 'b' && e.kind == 'N':
					return append(out, "C")
				}
			}
			return out
		}},
		{"SkipUntil", func(a, b Observable[int]) Observable[string] { return str(SkipUntil[int](b)(a)) }, func(sc []ow2Ev) []string {
			var out []string
			ready := false
			for _, e := range sc {
				switch {
				case e.src == 'a' && e.kind == 'N':
					if ready {
						out = append(out, fmt.Sprintf("N%d", e.val))
					}
				case e.src == 'a' && e.kind == 'C':
					return append(out, "C")
				case e.src == 'a' && e.kind == 'E':
					return append(out, "E")
				case e.src == 'b' && e.kind == 'N':
					ready = true
				}
			}
			return out
		}},
	}
	prev := OnUnhandledError
	OnUnhandledError = IgnoreOnUnhandledError
	defer func() { OnUnhandledError = prev }()
	scripts := ow2Scripts(5)
	zipRef := ops[0].ref
	for i := range ops {
		if ops[i].ref == nil {
			ops[i].ref = zipRef // the variadic forms of Zip have the definition of Zip2
			if strings.HasSuffix(ops[i].name, "Take1") {
				// ... cut after the first tuple: the downstream ends from inside its Next
				ops[i].ref = func(sc []ow2Ev) []string {
					full := zipRef(sc)
					for j, e := range full {
						if strings.HasPrefix(e, "N") {
							return append(append([]string{}, full[:j+1]...), "C")
						}
					}
					return full
				}
			}
		}
	}
	for _, o := range ops {
		o := o
		t.Run(o.name, func(t *testing.T) {
			fails := 0
			for _, sc := range scripts {
				a, b := NewPublishSubject[int](), NewPublishSubject[int]()
				var got []string
				sub := o.build(a.AsObservable(), b.AsObservable()).Subscribe(NewObserver(
					func(v string) { got = append(got, "N"+v) },
					func(error) { got = append(got, "E") },
					func() { got = append(got, "C") }))
				for _, e := range sc {
					s := a
					if e.src == 'b' {
						s = b
					}
					switch e.kind {
					case 'N':
						s.Next(e.val)
					case 'C':
						s.Complete()
					case 'E':
						s.Error(owErr)
					}
				}
				want := o.ref(sc)
				terminated := len(want) > 0 && (want[len(want)-1] == "C" || want[len(want)-1] == "E")
				leaked := terminated && (a.CountObservers() != 0 || b.CountObservers() != 0)
				if fmt.Sprint(got) != fmt.Sprint(want) || leaked {
					fails++
					fmt.Printf("REPLAY-FAIL %s interleaving %v: got %v, the definition gives %v (observers left on a/b after the end: %d/%d)\n", o.name, sc, got, want, a.CountObservers(), b.CountObservers())
					if fails >= 3 {
						sub.Unsubscribe()
						t.Fatalf("%d mismatches", fails)
					}
				}
				sub.Unsubscribe()
				if a.CountObservers() != 0 || b.CountObservers() != 0 {
					fails++
					fmt.Printf("REPLAY-FAIL %s interleaving %v, then Unsubscribe: observers left on a/b: %d/%d\n", o.name, sc, a.CountObservers(), b.CountObservers())
					if fails >= 3 {
						t.Fatalf("%d mismatches", fails)
					}
				}
			}
			if fails > 0 {
				t.Fatalf("%d mismatches", fails)
			}
			fmt.Printf("REPLAY-OK %s\n", o.name)
			fmt.Printf("BOUNDED-CASES %d\n", len(scripts))
		})
	}
}

func ow2Any[T any](o Observable[T]) Observable[any] {
	return Map(func(v T) any { return v })(o)
}
