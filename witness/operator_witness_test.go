// Replay witnesses for operator obligations (layers M / D / P) whose contract machine is not executable by the
// generated script harness: a hand-written reference definition per operator, compared with the real operator on
// every input script up to length 4 over {0,1,2} with the endings complete / error / none, for every small parameter
// value. They never decide a pass: the check runs TestWitnessOperators/<Operator> only after an obligation of that
// operator failed (or its contract stopped binding), to find a concrete failing input.
// Mapped to /repo/zz_rovc_opwitness_test.go (package ro) by `go test -overlay`.
package ro

import (
	"context"
	"errors"
	"fmt"
	"sort"
	"testing"
)

var owErr = errors.New("ow-source-error")

type owScript struct {
	vals []int
	end  string // "C", "E", ""
}

func owScripts(maxLen int) []owScript {
	var out []owScript
	var rec func(p []int)
	rec = func(p []int) {
		for _, e := range []string{"C", "E", ""} {
			out = append(out, owScript{append([]int{}, p...), e})
		}
		if len(p) == maxLen {
			return
		}
		for v := 0; v < 3; v++ {
			rec(append(p, v))
		}
	}
	rec(nil)
	return out
}

func owSource(s owScript) Observable[int] {
	return NewUnsafeObservable(func(o Observer[int]) Teardown {
		for _, v := range s.vals {
			o.Next(v)
		}
		switch s.end {
		case "C":
			o.Complete()
		case "E":
			o.Error(owErr)
		}
		return nil
	})
}

func owRun[R any](o Observable[R]) []string {
	var tr []string
	o.Subscribe(NewObserver(
		func(v R) { tr = append(tr, fmt.Sprintf("N%v", v)) },
		func(err error) {
			if errors.Is(err, owErr) {
				tr = append(tr, "E")
			} else {
				tr = append(tr, "E:"+err.Error())
			}
		},
		func() { tr = append(tr, "C") },
	))
	return tr
}

// owRunTwice subscribes the same observable twice: both subscriptions must see the same notifications (C12).
func owRunTwice[R any](o Observable[R]) []string {
	a := owRun(o)
	b := owRun(o)
	if fmt.Sprint(a) != fmt.Sprint(b) {
		return append(append([]string{}, a...), "SECOND-SUBSCRIPTION-DIFFERS:"+fmt.Sprint(b))
	}
	return a
}

func owEnd(tr []string, s owScript) []string {
	switch s.end {
	case "C":
		return append(tr, "C")
	case "E":
		return append(tr, "E")
	}
	return tr
}

// TestWitnessOperators: one subtest per operator.
func TestWitnessOperators(t *testing.T) {
	type op struct {
		name   string
		params []int
		build  func(p int) func(Observable[int]) []string // real operator, trace of its output on a source
		ref    func(p int, s owScript) []string
	}
	ints := func(vs []int) []string {
		var o []string
		for _, v := range vs {
			o = append(o, fmt.Sprintf("N%d", v))
		}
		return o
	}
	ops := []op{
		{"TakeLast", []int{1, 2, 3}, func(p int) func(Observable[int]) []string {
			op := TakeLast[int](p) // one operator value for every script: state kept in it leaks from one subscription to the next
			return func(src Observable[int]) []string { return owRunTwice(op(src)) }
		}, func(p int, s owScript) []string {
			if s.end == "C" {
				from := len(s.vals) - p
				if from < 0 {
					from = 0
				}
				return append(ints(s.vals[from:]), "C")
			}
			return owEnd(nil, s)
		}},
		{"SkipLast", []int{1, 2, 3}, func(p int) func(Observable[int]) []string {
			op := SkipLast[int](p) // one operator value for every script: state kept in it leaks from one subscription to the next
			return func(src Observable[int]) []string { return owRunTwice(op(src)) }
		}, func(p int, s owScript) []string {
			n := len(s.vals) - p
			if n < 0 {
				n = 0
			}
			return owEnd(ints(s.vals[:n]), s)
		}},
		{"Distinct", []int{0}, func(p int) func(Observable[int]) []string {
			op := Distinct[int]() // one operator value for every script: state kept in it leaks from one subscription to the next
			return func(src Observable[int]) []string { return owRunTwice(op(src)) }
		}, func(p int, s owScript) []string {
			seen := map[int]bool{}
			var o []int
			for _, v := range s.vals {
				if !seen[v] {
					seen[v] = true
					o = append(o, v)
				}
			}
			return owEnd(ints(o), s)
		}},
		{"DistinctByWithContext", []int{0}, func(p int) func(Observable[int]) []string {
			op := DistinctBy(func(v int) int { return v % 2 }) // one operator value for every script: state kept in it leaks from one subscription to the next
			return func(src Observable[int]) []string { return owRunTwice(op(src)) }
		}, func(p int, s owScript) []string {
			seen := map[int]bool{}
			var o []int
			for _, v := range s.vals {
				if !seen[v%2] {
					seen[v%2] = true
					o = append(o, v)
				}
			}
			return owEnd(ints(o), s)
		}},
		{"Pairwise", []int{0}, func(p int) func(Observable[int]) []string {
			op := Pairwise[int]() // one operator value for every script: state kept in it leaks from one subscription to the next
			return func(src Observable[int]) []string { return owRunTwice(op(src)) }
		}, func(p int, s owScript) []string {
			var o []string
			for i := 1; i < len(s.vals); i++ {
				o = append(o, fmt.Sprintf("N[%d %d]", s.vals[i-1], s.vals[i]))
			}
			return owEnd(o, s)
		}},
		{"BufferWithCount", []int{1, 2, 3}, func(p int) func(Observable[int]) []string {
			op := BufferWithCount[int](p) // one operator value for every script: state kept in it leaks from one subscription to the next
			return func(src Observable[int]) []string { return owRunTwice(op(src)) }
		}, func(p int, s owScript) []string {
			var o []string
			var buf []int
			for _, v := range s.vals {
				buf = append(buf, v)
				if len(buf) == p {
					o = append(o, fmt.Sprintf("N%v", buf))
					buf = nil
				}
			}
			if s.end == "C" && len(buf) > 0 {
				o = append(o, fmt.Sprintf("N%v", buf))
			}
			return owEnd(o, s)
		}},
		{"StartWith", []int{0, 1, 2}, func(p int) func(Observable[int]) []string {
			op := StartWith([]int{7, 8}[:p]...) // one operator value for every script: state kept in it leaks from one subscription to the next
			return func(src Observable[int]) []string { return owRunTwice(op(src)) }
		}, func(p int, s owScript) []string {
			return owEnd(append(ints([]int{7, 8}[:p]), ints(s.vals)...), s)
		}},
		{"EndWith", []int{0, 1, 2}, func(p int) func(Observable[int]) []string {
			op := EndWith([]int{7, 8}[:p]...) // one operator value for every script: state kept in it leaks from one subscription to the next
			return func(src Observable[int]) []string { return owRunTwice(op(src)) }
		}, func(p int, s owScript) []string {
			o := ints(s.vals)
			if s.end == "C" {
				o = append(o, ints([]int{7, 8}[:p])...)
			}
			return owEnd(o, s)
		}},
		{"ToSlice", []int{0}, func(p int) func(Observable[int]) []string {
			op := ToSlice[int]() // one operator value for every script: state kept in it leaks from one subscription to the next
			return func(src Observable[int]) []string { return owRunTwice(op(src)) }
		}, func(p int, s owScript) []string {
			if s.end == "C" {
				vs := s.vals
				if vs == nil {
					vs = []int{}
				}
				return []string{fmt.Sprintf("N%v", vs), "C"}
			}
			return owEnd(nil, s)
		}},
		{"ToMapIWithContext", []int{0}, func(p int) func(Observable[int]) []string {
			return func(src Observable[int]) []string {
				var tr []string
				ToMapI(func(v int, i int64) (int, string) { return v % 2, fmt.Sprintf("%d@%d", v, i) })(src).Subscribe(NewObserver(
					func(m map[int]string) {
						var ks []int
						for k := range m {
							ks = append(ks, k)
						}
						sort.Ints(ks)
						e := "N"
						for _, k := range ks {
							e += fmt.Sprintf("%d=%s;", k, m[k])
						}
						tr = append(tr, e)
					},
					func(error) { tr = append(tr, "E") }, func() { tr = append(tr, "C") }))
				return tr
			}
		}, func(p int, s owScript) []string {
			if s.end != "C" {
				return owEnd(nil, s)
			}
			m := map[int]string{}
			for i, v := range s.vals {
				m[v%2] = fmt.Sprintf("%d@%d", v, i)
			}
			e := "N"
			for _, k := range []int{0, 1} {
				if x, ok := m[k]; ok {
					e += fmt.Sprintf("%d=%s;", k, x)
				}
			}
			return []string{e, "C"}
		}},
		{"SkipWhileIWithContext", []int{0}, func(p int) func(Observable[int]) []string {
			op := SkipWhileI(func(v int, i int64) bool { return v == 0 && i < 2 }) // one operator value for every script: state kept in it leaks from one subscription to the next
			return func(src Observable[int]) []string { return owRunTwice(op(src)) }
		}, func(p int, s owScript) []string {
			var o []int
			skipping := true
			for i, v := range s.vals {
				if skipping && v == 0 && i < 2 {
					continue
				}
				skipping = false
				o = append(o, v)
			}
			return owEnd(ints(o), s)
		}},
		{"Flatten", []int{0}, func(p int) func(Observable[int]) []string {
			return func(src Observable[int]) []string {
				return owRun(Flatten[int]()(Map(func(v int) []int { return []int{v, v + 10}[:v%3] })(src)))
			}
		}, func(p int, s owScript) []string {
			var o []int
			for _, v := range s.vals {
				o = append(o, []int{v, v + 10}[:v%3]...)
			}
			return owEnd(ints(o), s)
		}},
		{"Average", []int{0}, func(p int) func(Observable[int]) []string {
			op := Average[int]() // one operator value for every script: state kept in it leaks from one subscription to the next
			return func(src Observable[int]) []string { return owRunTwice(op(src)) }
		}, func(p int, s owScript) []string {
			if s.end != "C" {
				return owEnd(nil, s)
			}
			if len(s.vals) == 0 {
				return []string{"NNaN", "C"}
			}
			sum := 0.0
			for _, v := range s.vals {
				sum += float64(v)
			}
			return []string{fmt.Sprintf("N%v", sum/float64(len(s.vals))), "C"}
		}},
		{"ConcatWith", []int{0, 1}, func(p int) func(Observable[int]) []string {
			op := ConcatWith([]Observable[int]{Just(7, 8)}[:p]...) // one operator value for every script: state kept in it leaks from one subscription to the next
			return func(src Observable[int]) []string { return owRunTwice(op(src)) }
		}, func(p int, s owScript) []string {
			o := ints(s.vals)
			if s.end == "C" {
				if p == 1 {
					o = append(o, "N7", "N8")
				}
				return append(o, "C")
			}
			return owEnd(o, s)
		}},
		{"MergeWith1", []int{0}, func(p int) func(Observable[int]) []string {
			op := MergeWith1(Just(7, 8)) // one operator value for every script: state kept in it leaks from one subscription to the next
			return func(src Observable[int]) []string { return owRunTwice(op(src)) }
		}, func(p int, s owScript) []string {
			o := ints(s.vals)
			switch s.end {
			case "C":
				return append(o, "N7", "N8", "C")
			case "E":
				return append(o, "E")
			}
			return append(o, "N7", "N8")
		}},
		{"Catch", []int{0}, func(p int) func(Observable[int]) []string {
			op := Catch(func(err error) Observable[int] { return Just(7) }) // one operator value for every script: state kept in it leaks from one subscription to the next
			return func(src Observable[int]) []string { return owRunTwice(op(src)) }
		}, func(p int, s owScript) []string {
			o := ints(s.vals)
			switch s.end {
			case "C":
				return append(o, "C")
			case "E":
				return append(o, "N7", "C")
			}
			return o
		}},
		{"RepeatWith", []int{1, 2, 3}, func(p int) func(Observable[int]) []string {
			op := RepeatWith[int](int64(p)) // one operator value for every script: state kept in it leaks from one subscription to the next
			return func(src Observable[int]) []string { return owRunTwice(op(src)) }
		}, func(p int, s owScript) []string {
			var o []string
			switch s.end {
			case "C":
				for i := 0; i < p; i++ {
					o = append(o, ints(s.vals)...)
				}
				return append(o, "C")
			case "E":
				return append(ints(s.vals), "E")
			}
			return nil // a source that neither completes nor fails blocks RepeatWith: not driven
		}},
		{"RetryWithConfig", []int{1, 2}, func(p int) func(Observable[int]) []string {
			op := RetryWithConfig[int](RetryConfig{MaxRetries: uint64(p)}) // one operator value for every script: state kept in it leaks from one subscription to the next
			return func(src Observable[int]) []string { return owRunTwice(op(src)) }
		}, func(p int, s owScript) []string {
			var o []string
			switch s.end {
			case "C":
				return append(ints(s.vals), "C")
			case "E":
				for i := 0; i <= p; i++ {
					o = append(o, ints(s.vals)...)
				}
				return append(o, "E")
			}
			return nil
		}},
		{"DefaultIfEmptyWithContext", []int{0}, func(p int) func(Observable[int]) []string {
			op := DefaultIfEmpty(9) // one operator value for every script: state kept in it leaks from one subscription to the next
			return func(src Observable[int]) []string { return owRunTwice(op(src)) }
		}, func(p int, s owScript) []string {
			if s.end == "C" && len(s.vals) == 0 {
				return []string{"N9", "C"}
			}
			return owEnd(ints(s.vals), s)
		}},
		{"GroupByIWithContext", []int{0}, func(p int) func(Observable[int]) []string {
			return func(src Observable[int]) []string {
				var tr []string
				GroupBy(func(v int) int { return v % 2 })(src).Subscribe(NewObserver(
					func(g Observable[int]) {
						id := len(tr)
						_ = id
						g.Subscribe(NewObserver(
							func(v int) { tr = append(tr, fmt.Sprintf("g%d:N%d", v%2, v)) },
							func(error) { tr = append(tr, "g:E") },
							func() { tr = append(tr, "g:C") }))
					},
					func(error) { tr = append(tr, "E") }, func() { tr = append(tr, "C") }))
				return tr
			}
		}, func(p int, s owScript) []string {
			var o []string
			groups := map[int]bool{}
			for _, v := range s.vals {
				groups[v%2] = true
				o = append(o, fmt.Sprintf("g%d:N%d", v%2, v))
			}
			switch s.end {
			case "C":
				for range groups {
					o = append(o, "g:C")
				}
				o = append(o, "C")
			case "E":
				for range groups {
					o = append(o, "g:E")
				}
				o = append(o, "E")
			}
			return o
		}},
	}
	for _, o := range ops {
		o := o
		if o.ref == nil {
			continue
		}
		t.Run(o.name, func(t *testing.T) {
			fails := 0
			for _, p := range o.params {
				f := o.build(p)
				for _, s := range owScripts(4) {
					if s.end == "" && (o.name == "RepeatWith" || o.name == "RetryWithConfig" || o.name == "ConcatWith") {
						continue // these operators wait for the end of each source inside Subscribe: an endless script blocks them
					}
					want := o.ref(p, s)
					got := f(owSource(s))
					if fmt.Sprint(got) != fmt.Sprint(want) {
						fails++
						fmt.Printf("REPLAY-FAIL %s(%d) script=%v ending=%q: got %v, the definition gives %v\n", o.name, p, s.vals, s.end, got, want)
						if fails >= 3 {
							t.Fatalf("%d mismatches", fails)
						}
					}
				}
			}
			if fails > 0 {
				t.Fatalf("%d mismatches", fails)
			}
			fmt.Printf("REPLAY-OK %s\n", o.name)
		})
	}
}

var _ = context.Background
