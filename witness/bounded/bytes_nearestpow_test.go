package robytes

import (
	"fmt"
	"testing"
)

// Bounded stand-in (never counted as proved): nearestPowerOfTwo is bit arithmetic, which the verifier's mathematical
// integers do not reach. Every capacity from 1 to 2^20 and every 2^k-1, 2^k, 2^k+1 up to 2^30 is run through the real
// function: the result is the smallest power of two that is not below the capacity, capped at maximumCapacity.
func TestBoundedNearestPowerOfTwo(t *testing.T) {
	check := func(c int) {
		got := nearestPowerOfTwo(c)
		want := 1
		for want < c && want < maximumCapacity {
			want <<= 1
		}
		if got != want {
			t.Fatalf("REPLAY-FAIL nearestPowerOfTwo(%d) = %d, want %d (the smallest power of two that is not below the capacity)", c, got, want)
		}
	}
	n := 0
	for c := 1; c <= 1<<20; c++ {
		check(c)
		n++
	}
	for k := 1; k <= 30; k++ {
		for _, c := range []int{1<<k - 1, 1 << k, 1<<k + 1} {
			if c <= maximumCapacity+1 {
				check(c)
				n++
			}
		}
	}
	fmt.Printf("BOUNDED-CASES %d\n", n)
}
