// Replay witnesses for kernel (layer K) obligations: bounded searches for a concrete failing input on the
// real code. They never decide a pass; the check runs them only after an obligation has failed, through
// `go test -overlay` (this file is mapped to /repo/zz_rovc_witness_test.go, package ro).
package ro

import (
	"context"
	"errors"
	"fmt"
	"runtime"
	"sync"
	"sync/atomic"
	"testing"
	"time"
)

type wRec struct {
	mu     sync.Mutex
	events []string
	inside int32
	maxIn  int32
	block  chan struct{}
}

func (r *wRec) enter() {
	n := atomic.AddInt32(&r.inside, 1)
	for {
		m := atomic.LoadInt32(&r.maxIn)
		if n <= m || atomic.CompareAndSwapInt32(&r.maxIn, m, n) {
			break
		}
	}
}
func (r *wRec) leave() { atomic.AddInt32(&r.inside, -1) }
func (r *wRec) add(s string) {
	r.mu.Lock()
	r.events = append(r.events, s)
	r.mu.Unlock()
}
func (r *wRec) observer() Observer[int] {
	return NewObserverWithContext(
		func(ctx context.Context, v int) {
			r.enter()
			if r.block != nil {
				<-r.block
			}
			r.add(fmt.Sprintf("N%d", v))
			r.leave()
		},
		func(ctx context.Context, err error) { r.enter(); r.add("E"); r.leave() },
		func(ctx context.Context) { r.enter(); r.add("C"); r.leave() },
	)
}

func wGrammarOK(evs []string) bool {
	term := false
	for _, e := range evs {
		if term {
			return false
		}
		if e == "E" || e == "C" {
			term = true
		}
	}
	return true
}

func wScripts(alpha []string, maxLen int) [][]string {
	out := [][]string{{}}
	frontier := [][]string{{}}
	for l := 0; l < maxLen; l++ {
		var next [][]string
		for _, p := range frontier {
			for _, a := range alpha {
				q := append(append([]string{}, p...), a)
				next = append(next, q)
				out = append(out, q)
			}
		}
		frontier = next
	}
	return out
}

// TestWitnessGate: every producer script over {Next, Error, Complete, Unsubscribe} up to length 5 against the
// subscriber gate in each concurrency mode: grammar, dropped notifications, cut after Unsubscribe, status queries.
func TestWitnessGate(t *testing.T) {
	fails := 0
	var dropped int32
	prev := OnDroppedNotification
	OnDroppedNotification = func(ctx context.Context, n fmt.Stringer) { atomic.AddInt32(&dropped, 1) }
	defer func() { OnDroppedNotification = prev }()
	modes := map[string]func(Observer[int]) Subscriber[int]{
		"safe": NewSafeSubscriber[int], "unsafe": NewUnsafeSubscriber[int], "eventually": NewEventuallySafeSubscriber[int],
	}
	for mode, mk := range modes {
		for _, sc := range wScripts([]string{"N", "E", "C", "U"}, 5) {
			rec := &wRec{}
			sub := mk(rec.observer())
			tdRuns := 0
			sub.Add(func() { tdRuns++ })
			atomic.StoreInt32(&dropped, 0)
			expect := []string{}
			closed := false
			wantDropped := 0
			for i, op := range sc {
				switch op {
				case "N":
					sub.NextWithContext(context.Background(), i)
					if !closed {
						expect = append(expect, fmt.Sprintf("N%d", i))
					} else {
						wantDropped++
					}
				case "E":
					sub.ErrorWithContext(context.Background(), errors.New("x"))
					if !closed {
						expect = append(expect, "E")
						closed = true
					} else {
						wantDropped++
					}
				case "C":
					sub.CompleteWithContext(context.Background())
					if !closed {
						expect = append(expect, "C")
						closed = true
					} else {
						wantDropped++
					}
				case "U":
					sub.Unsubscribe()
					closed = true
				}
				if sub.IsClosed() != closed {
					fails++
					fmt.Printf("REPLAY-FAIL gate[%s] IsClosed=%v after %v, want %v\n", mode, sub.IsClosed(), sc[:i+1], closed)
				}
			}
			if fmt.Sprint(rec.events) != fmt.Sprint(expect) || !wGrammarOK(rec.events) {
				fails++
				fmt.Printf("REPLAY-FAIL gate[%s] script %v delivered %v, want %v\n", mode, sc, rec.events, expect)
			}
			if int(atomic.LoadInt32(&dropped)) != wantDropped {
				fails++
				fmt.Printf("REPLAY-FAIL gate[%s] script %v: %d notifications went to the dropped hook, want %d\n", mode, sc, dropped, wantDropped)
			}
			wantTd := 0
			if closed {
				wantTd = 1
			}
			if tdRuns != wantTd {
				fails++
				fmt.Printf("REPLAY-FAIL gate[%s] script %v: teardown ran %d times, want %d\n", mode, sc, tdRuns, wantTd)
			}
			if fails > 8 {
				t.Fatalf("too many failures")
			}
		}
	}
	// the plain observer: grammar under every script, hook for refused notifications
	for _, sc := range wScripts([]string{"N", "E", "C"}, 5) {
		rec := &wRec{}
		o := rec.observer()
		expect := []string{}
		closed := false
		for i, op := range sc {
			switch op {
			case "N":
				o.NextWithContext(context.Background(), i)
				if !closed {
					expect = append(expect, fmt.Sprintf("N%d", i))
				}
			case "E":
				o.ErrorWithContext(context.Background(), errors.New("x"))
				if !closed {
					expect = append(expect, "E")
					closed = true
				}
			case "C":
				o.CompleteWithContext(context.Background())
				if !closed {
					expect = append(expect, "C")
					closed = true
				}
			}
		}
		if fmt.Sprint(rec.events) != fmt.Sprint(expect) {
			fails++
			fmt.Printf("REPLAY-FAIL observer script %v delivered %v, want %v\n", sc, rec.events, expect)
		}
	}
	// overlap: a producer blocked inside Next while another goroutine sends a terminal / a value (safe modes)
	for _, second := range []string{"N", "E", "C"} {
		rec := &wRec{block: make(chan struct{})}
		sub := NewSafeSubscriber[int](rec.observer())
		go sub.NextWithContext(context.Background(), 1)
		for atomic.LoadInt32(&rec.inside) == 0 {
			time.Sleep(time.Millisecond)
		}
		done := make(chan struct{})
		go func() {
			switch second {
			case "N":
				sub.NextWithContext(context.Background(), 2)
			case "E":
				sub.ErrorWithContext(context.Background(), errors.New("x"))
			case "C":
				sub.CompleteWithContext(context.Background())
			}
			close(done)
		}()
		time.Sleep(20 * time.Millisecond)
		close(rec.block)
		<-done
		if atomic.LoadInt32(&rec.maxIn) > 1 || !wGrammarOK(rec.events) {
			fails++
			fmt.Printf("REPLAY-FAIL gate[safe] concurrent Next/%s: %d callbacks at once, delivered %v\n", second, rec.maxIn, rec.events)
		}
	}
	// Unsubscribe from inside a callback does not deadlock
	{
		var sub Subscriber[int]
		okc := make(chan struct{})
		sub = NewSafeSubscriber[int](NewObserver(func(v int) { sub.Unsubscribe() }, func(error) {}, func() {}))
		go func() { sub.Next(1); sub.Next(2); close(okc) }()
		select {
		case <-okc:
		case <-time.After(2 * time.Second):
			fails++
			fmt.Printf("REPLAY-FAIL gate[safe] Unsubscribe from inside Next deadlocks\n")
		}
	}
	// a panicking onNext reaches onError once, wrapped, and nothing escapes
	{
		rec := &wRec{}
		var got error
		o := NewObserverWithContext(func(ctx context.Context, v int) { panic(errors.New("boom")) }, func(ctx context.Context, err error) { got = err; rec.add("E") }, func(ctx context.Context) { rec.add("C") })
		func() {
			defer func() {
				if r := recover(); r != nil {
					fails++
					fmt.Printf("REPLAY-FAIL observer: panic escaped from Next: %v\n", r)
				}
			}()
			o.Next(1)
		}()
		if len(rec.events) != 1 || got == nil || errors.Unwrap(got) == nil || errors.Unwrap(got).Error() != "boom" {
			fails++
			fmt.Printf("REPLAY-FAIL observer: panicking onNext gave events %v err %v\n", rec.events, got)
		}
	}
	if fails > 0 {
		t.Fatalf("%d witness failures", fails)
	}
	fmt.Println("REPLAY-OK gate")
}

// TestWitnessSubscription: Add / Unsubscribe / Wait / IsClosed, every subset of panicking teardowns, late Add.
func TestWitnessSubscription(t *testing.T) {
	fails := 0
	// a teardown added after disposal may use its own subscription (it runs outside the subscription's lock)
	for _, use := range []string{"IsClosed", "Add", "Unsubscribe"} {
		sub := NewSubscription(nil)
		sub.Unsubscribe()
		done := make(chan struct{})
		go func() {
			sub.Add(func() {
				switch use {
				case "IsClosed":
					sub.IsClosed()
				case "Add":
					sub.Add(func() {})
				case "Unsubscribe":
					sub.Unsubscribe()
				}
				close(done)
			})
		}()
		select {
		case <-done:
		case <-time.After(time.Second):
			fails++
			fmt.Printf("REPLAY-FAIL subscription: Unsubscribe(); Add(teardown calling %s on the same subscription): the late teardown never returns (it runs under the subscription's lock)\n", use)
		}
	}
	for n := 0; n <= 4; n++ {
		for mask := 0; mask < 1<<n; mask++ {
			sub := NewSubscription(nil)
			runs := make([]int, n)
			var order []int
			for i := 0; i < n; i++ {
				i := i
				sub.Add(func() {
					runs[i]++
					order = append(order, i)
					if mask&(1<<i) != 0 {
						panic(fmt.Sprintf("td%d", i))
					}
				})
			}
			var pv any
			func() {
				defer func() { pv = recover() }()
				sub.Unsubscribe()
			}()
			for i := 0; i < n; i++ {
				if runs[i] != 1 {
					fails++
					fmt.Printf("REPLAY-FAIL subscription n=%d panicking=%b: teardown %d ran %d times\n", n, mask, i, runs[i])
				}
			}
			for i := range order {
				if order[i] != i {
					fails++
					fmt.Printf("REPLAY-FAIL subscription n=%d panicking=%b: order %v\n", n, mask, order)
					break
				}
			}
			if (pv != nil) != (mask != 0) {
				fails++
				fmt.Printf("REPLAY-FAIL subscription n=%d panicking=%b: panic re-raised=%v\n", n, mask, pv)
			}
			if !sub.IsClosed() {
				fails++
				fmt.Printf("REPLAY-FAIL subscription: not closed after Unsubscribe\n")
			}
			// second Unsubscribe: nothing runs again; late Add runs at once, exactly once
			func() { defer func() { recover() }(); sub.Unsubscribe() }()
			late := 0
			sub.Add(func() { late++ })
			for i := 0; i < n; i++ {
				if runs[i] != 1 {
					fails++
					fmt.Printf("REPLAY-FAIL subscription: teardown %d ran again on the second Unsubscribe\n", i)
				}
			}
			if late != 1 {
				fails++
				fmt.Printf("REPLAY-FAIL subscription: teardown added after disposal ran %d times\n", late)
			}
			// Wait returns on a closed subscription
			done := make(chan struct{})
			go func() { sub.Wait(); close(done) }()
			select {
			case <-done:
			case <-time.After(2 * time.Second):
				fails++
				fmt.Printf("REPLAY-FAIL subscription: Wait hangs on a closed subscription\n")
			}
			if fails > 8 {
				t.Fatalf("too many failures")
			}
		}
	}
	// Wait blocks until closed, then returns; concurrent Wait / Unsubscribe
	for round := 0; round < 2000; round++ {
		sub := NewSubscription(nil)
		done := make(chan struct{})
		go func() { sub.Wait(); close(done) }()
		if round%2 == 0 {
			time.Sleep(time.Microsecond)
		}
		sub.Unsubscribe()
		select {
		case <-done:
		case <-time.After(2 * time.Second):
			fails++
			fmt.Printf("REPLAY-FAIL subscription: Wait racing with Unsubscribe never returned (round %d)\n", round)
			t.Fatalf("%d witness failures", fails)
		}
	}
	// a waiter registered before a panicking teardown is still released
	{
		sub := NewSubscription(func() { panic("first") })
		done := make(chan struct{})
		go func() { sub.Wait(); close(done) }()
		time.Sleep(10 * time.Millisecond)
		func() { defer func() { recover() }(); sub.Unsubscribe() }()
		select {
		case <-done:
		case <-time.After(2 * time.Second):
			fails++
			fmt.Printf("REPLAY-FAIL subscription: a panicking teardown left Wait blocked\n")
		}
	}
	if fails > 0 {
		t.Fatalf("%d witness failures", fails)
	}
	fmt.Println("REPLAY-OK subscription")
}

// TestWitnessSubscriptionLive: Add racing with Unsubscribe on two goroutines - the finalizer runs exactly once, whichever
// comes first (registered before the unsubscription: run by it; after: run at once). Bounded (rounds, timing); it only
// backs UNDECIDED units.
func TestWitnessSubscriptionLive(t *testing.T) {
	const rounds = 20000
	for round := 0; round < rounds; round++ {
		sub := NewSubscription(nil)
		var ran, ready, goFlag int32
		var wg sync.WaitGroup
		wg.Add(2)
		go func() {
			defer wg.Done()
			atomic.AddInt32(&ready, 1)
			for atomic.LoadInt32(&goFlag) == 0 {
			}
			sub.Add(func() { atomic.AddInt32(&ran, 1) })
		}()
		go func() {
			defer wg.Done()
			atomic.AddInt32(&ready, 1)
			for atomic.LoadInt32(&goFlag) == 0 {
			}
			sub.Unsubscribe()
		}()
		for atomic.LoadInt32(&ready) < 2 {
			runtime.Gosched()
		}
		atomic.StoreInt32(&goFlag, 1)
		wg.Wait()
		if n := atomic.LoadInt32(&ran); n != 1 || !sub.IsClosed() {
			fmt.Printf("REPLAY-FAIL subscription: Add(f) on one goroutine racing with Unsubscribe() on another (round %d): f ran %d time(s), closed=%v\n", round, n, sub.IsClosed())
			t.Errorf("WITNESS subscription Add || Unsubscribe: f ran %d time(s)", n)
			return
		}
	}
}

// TestWitnessSubscriptionReentrant: a finalizer that unsubscribes (or adds to) its own subscription, and a second
// Unsubscribe issued while the finalizers of the first are still running, return at once - the second call is a
// no-op, it does not wait for the first. Each scenario runs on its own goroutine and is given two seconds.
func TestWitnessSubscriptionReentrant(t *testing.T) {
	within := func(what string, f func()) bool {
		done := make(chan struct{})
		go func() {
			defer close(done)
			f()
		}()
		select {
		case <-done:
			return true
		case <-time.After(2 * time.Second):
			fmt.Printf("REPLAY-FAIL subscription: %s did not return within 2s\n", what)
			t.Errorf("WITNESS subscription: %s hangs", what)
			return false
		}
	}
	// a finalizer unsubscribes its own subscription
	{
		sub := NewSubscription(nil)
		var ran int32
		sub.Add(func() {
			atomic.AddInt32(&ran, 1)
			sub.Unsubscribe()
		})
		if !within("Unsubscribe() with a finalizer that calls Unsubscribe() on the same subscription", sub.Unsubscribe) {
			return
		}
		if atomic.LoadInt32(&ran) != 1 {
			fmt.Printf("REPLAY-FAIL subscription: a finalizer that unsubscribes its own subscription ran %d time(s)\n", ran)
			t.Errorf("WITNESS subscription: re-entrant finalizer ran %d times", ran)
		}
	}
	// a finalizer adds to its own (by now closed) subscription: the late teardown runs at once, once
	{
		sub := NewSubscription(nil)
		var late int32
		sub.Add(func() {
			sub.Add(func() { atomic.AddInt32(&late, 1) })
		})
		if !within("Unsubscribe() with a finalizer that calls Add() on the same subscription", sub.Unsubscribe) {
			return
		}
		if atomic.LoadInt32(&late) != 1 {
			fmt.Printf("REPLAY-FAIL subscription: a teardown added by a finalizer of the same subscription ran %d time(s)\n", late)
			t.Errorf("WITNESS subscription: late teardown ran %d times", late)
		}
	}
	// a second Unsubscribe while the first is still running its finalizers
	{
		sub := NewSubscription(nil)
		release := make(chan struct{})
		entered := make(chan struct{})
		sub.Add(func() {
			close(entered)
			<-release
		})
		first := make(chan struct{})
		go func() {
			defer close(first)
			sub.Unsubscribe()
		}()
		<-entered
		ok := within("a second Unsubscribe() while the finalizers of the first are running", sub.Unsubscribe)
		close(release)
		<-first
		if !ok {
			return
		}
	}
}
