// Replay witnesses for the subject and Share / connectable obligations (layer K): every operation sequence up
// to a bound against a reference model of the sequential definition. Mapped to /repo/zz_rovc_witness2_test.go.
package ro

import (
	"context"
	"errors"
	"fmt"
	"sync"
	"sync/atomic"
	"testing"
	"time"
)

type wsModel struct {
	kind      string
	size      int
	status    int // 0 open, 1 error, 2 complete
	buf       []int
	last      int
	hasLast   bool
	subs      map[int]bool
	traces    map[int][]string
	unicastOn int // id of the attached subscriber, -1 none
}

func (m *wsModel) deliver(id int, s string) { m.traces[id] = append(m.traces[id], s) }

func (m *wsModel) apply(op string, arg int) {
	switch op {
	case "N":
		if m.status != 0 {
			return
		}
		switch m.kind {
		case "publish":
			for id := range m.subs {
				m.deliver(id, fmt.Sprintf("N%d", arg))
			}
		case "behavior":
			m.last, m.hasLast = arg, true
			for id := range m.subs {
				m.deliver(id, fmt.Sprintf("N%d", arg))
			}
		case "replay":
			for id := range m.subs {
				m.deliver(id, fmt.Sprintf("N%d", arg))
			}
			m.buf = append(m.buf, arg)
			if m.size >= 0 && len(m.buf) > m.size {
				m.buf = m.buf[len(m.buf)-m.size:]
			}
		case "async":
			m.last, m.hasLast = arg, true
		case "unicast":
			if m.unicastOn >= 0 {
				m.deliver(m.unicastOn, fmt.Sprintf("N%d", arg))
			} else {
				m.buf = append(m.buf, arg)
				if m.size >= 0 && len(m.buf) > m.size {
					m.buf = m.buf[len(m.buf)-m.size:]
				}
			}
		}
	case "E", "C":
		if m.status != 0 {
			return
		}
		t := op
		if op == "E" {
			m.status = 1
		} else {
			m.status = 2
		}
		if m.kind == "unicast" {
			if m.unicastOn >= 0 {
				m.deliver(m.unicastOn, t)
				delete(m.subs, m.unicastOn)
				m.unicastOn = -1
			}
			return
		}
		for id := range m.subs {
			if m.kind == "async" && op == "C" && m.hasLast {
				m.deliver(id, fmt.Sprintf("N%d", m.last))
			}
			m.deliver(id, t)
		}
		m.subs = map[int]bool{}
	case "S":
		id := arg
		m.traces[id] = nil
		term := map[int]string{1: "E", 2: "C"}
		switch m.kind {
		case "publish":
			if m.status != 0 {
				m.deliver(id, term[m.status])
				return
			}
		case "behavior":
			if m.status != 0 {
				m.deliver(id, term[m.status])
				return
			}
			m.deliver(id, fmt.Sprintf("N%d", m.last))
		case "replay":
			for _, v := range m.buf {
				m.deliver(id, fmt.Sprintf("N%d", v))
			}
			if m.status != 0 {
				m.deliver(id, term[m.status])
				return
			}
		case "async":
			if m.status == 1 {
				m.deliver(id, "E")
				return
			}
			if m.status == 2 {
				if m.hasLast {
					m.deliver(id, fmt.Sprintf("N%d", m.last))
				}
				m.deliver(id, "C")
				return
			}
		case "unicast":
			if m.status != 0 {
				// the definition hands the unconsumed backlog to a late subscriber first (known finding: the code does not)
				for _, v := range m.buf {
					m.deliver(id, fmt.Sprintf("N%d", v))
				}
				m.buf = nil
				m.deliver(id, term[m.status])
				return
			}
			if m.unicastOn >= 0 {
				m.deliver(id, "E")
				return
			}
			for _, v := range m.buf {
				m.deliver(id, fmt.Sprintf("N%d", v))
			}
			m.buf = nil
			m.unicastOn = id
		}
		m.subs[id] = true
	case "U":
		id := arg
		delete(m.subs, id)
		if m.kind == "unicast" && m.unicastOn == id {
			m.unicastOn = -1
		}
	}
}

type wsOp struct {
	op  string
	arg int
}

func wsSeqs(maxLen int) [][]wsOp {
	alpha := []wsOp{{"N", 0}, {"E", 0}, {"C", 0}, {"S", 0}, {"S", 1}, {"U", 0}, {"U", 1}}
	out := [][]wsOp{}
	var rec func(p []wsOp)
	rec = func(p []wsOp) {
		if len(p) > 0 {
			out = append(out, append([]wsOp{}, p...))
		}
		if len(p) == maxLen {
			return
		}
		for _, a := range alpha {
			rec(append(p, a))
		}
	}
	rec(nil)
	return out
}

// TestWitnessSubjects: all operation sequences up to length 5 over {Next, Error, Complete, Subscribe i, Unsubscribe i}.
func TestWitnessSubjects(t *testing.T) {
	fails := 0
	type mk struct {
		kind string
		size int
		new  func() Subject[int]
	}
	makers := []mk{
		{"publish", 0, func() Subject[int] { return NewPublishSubject[int]() }},
		{"behavior", 0, func() Subject[int] { return NewBehaviorSubject(7) }},
		{"replay", 2, func() Subject[int] { return NewReplaySubject[int](2) }},
		{"replay", -1, func() Subject[int] { return NewReplaySubject[int](ReplaySubjectUnlimitedBufferSize) }},
		{"async", 0, func() Subject[int] { return NewAsyncSubject[int]() }},
		{"unicast", 2, func() Subject[int] { return NewUnicastSubject[int](2) }},
		{"unicast", -1, func() Subject[int] { return NewUnicastSubject[int](UnicastSubjectUnlimitedBufferSize) }},
	}
	known := 0
	for _, mkr := range makers {
		for _, seq := range wsSeqs(5) {
			s := mkr.new()
			m := &wsModel{kind: mkr.kind, size: mkr.size, subs: map[int]bool{}, traces: map[int][]string{}, unicastOn: -1}
			if mkr.kind == "behavior" {
				m.last, m.hasLast = 7, true
			}
			got := map[int][]string{}
			subsc := map[int]Subscription{}
			val := 0
			lateUnicastBacklog := false
			for _, o := range seq {
				switch o.op {
				case "N":
					val++
					s.NextWithContext(context.Background(), val)
					m.apply("N", val)
				case "E":
					s.ErrorWithContext(context.Background(), errors.New("x"))
					m.apply("E", 0)
				case "C":
					s.CompleteWithContext(context.Background())
					m.apply("C", 0)
				case "S":
					if subsc[o.arg] != nil && !subsc[o.arg].IsClosed() {
						continue // one live subscription per simulated subscriber
					}
					id := o.arg
					got[id] = nil
					if mkr.kind == "unicast" && m.status != 0 && len(m.buf) > 0 {
						lateUnicastBacklog = true
					}
					subsc[id] = s.SubscribeWithContext(context.Background(), NewObserver(
						func(v int) { got[id] = append(got[id], fmt.Sprintf("N%d", v)) },
						func(error) { got[id] = append(got[id], "E") },
						func() { got[id] = append(got[id], "C") },
					))
					m.apply("S", id)
				case "U":
					if subsc[o.arg] != nil {
						subsc[o.arg].Unsubscribe()
						m.apply("U", o.arg)
					}
				}
			}
			for id := range got {
				if fmt.Sprint(got[id]) != fmt.Sprint(m.traces[id]) {
					if lateUnicastBacklog {
						known++
						continue
					}
					fails++
					fmt.Printf("REPLAY-FAIL subject[%s,%d] sequence %v: subscriber %d received %v, the sequential definition gives %v\n", mkr.kind, mkr.size, seq, id, got[id], m.traces[id])
				}
			}
			if s.CountObservers() != len(m.subs) {
				fails++
				fmt.Printf("REPLAY-FAIL subject[%s,%d] sequence %v: %d observers registered, want %d\n", mkr.kind, mkr.size, seq, s.CountObservers(), len(m.subs))
			}
			if fails > 8 {
				t.Fatalf("too many failures")
			}
		}
	}
	if known > 0 {
		fmt.Printf("REPLAY-KNOWN unicast late-subscriber backlog dropped in %d sequences\n", known)
	}
	if fails > 0 {
		t.Fatalf("%d witness failures", fails)
	}
	fmt.Println("REPLAY-OK subjects")
}

// TestWitnessShare: every sequence of subscribe / unsubscribe / source events up to length 6 against the
// reference counting definition of Share (default options), and Connect / disconnect of a connectable observable.
func TestWitnessShare(t *testing.T) {
	fails := 0
	type ev struct {
		op  string
		arg int
	}
	alpha := []ev{{"S", 0}, {"S", 1}, {"U", 0}, {"U", 1}, {"N", 0}, {"C", 0}}
	var seqs [][]ev
	var rec func(p []ev)
	rec = func(p []ev) {
		if len(p) > 0 {
			seqs = append(seqs, append([]ev{}, p...))
		}
		if len(p) == 6 {
			return
		}
		for _, a := range alpha {
			rec(append(p, a))
		}
	}
	rec(nil)
	for _, seq := range seqs {
		var live, total int32
		var cur Observer[int]
		src := NewObservable(func(o Observer[int]) Teardown {
			atomic.AddInt32(&live, 1)
			atomic.AddInt32(&total, 1)
			cur = o
			return func() { atomic.AddInt32(&live, -1); cur = nil }
		})
		shared := Pipe1(src, Share[int]())
		subs := map[int]Subscription{}
		ref := 0
		wantTotal := int32(0)
		for _, e := range seq {
			switch e.op {
			case "S":
				if subs[e.arg] != nil && !subs[e.arg].IsClosed() {
					continue
				}
				if ref == 0 {
					wantTotal++
				}
				ref++
				subs[e.arg] = shared.Subscribe(NoopObserver[int]())
			case "U":
				if subs[e.arg] != nil && !subs[e.arg].IsClosed() {
					subs[e.arg].Unsubscribe()
					ref--
				}
			case "N":
				if cur != nil {
					cur.Next(1)
				}
			case "C":
				if cur != nil {
					cur.Complete()
					ref = 0
				}
			}
			l := atomic.LoadInt32(&live)
			if l > 1 || (ref == 0 && l != 0) || (ref > 0 && l != 1) || atomic.LoadInt32(&total) != wantTotal {
				fails++
				fmt.Printf("REPLAY-FAIL share sequence %v: %d live upstream subscriptions (%d in total) with %d subscribers, want %d live / %d in total\n", seq, l, total, ref, map[bool]int{true: 1, false: 0}[ref > 0], wantTotal)
				break
			}
		}
		if fails > 5 {
			t.Fatalf("too many failures")
		}
	}
	// connectable: nothing before Connect, Connect while connected does not subscribe again
	{
		var total int32
		c := Connectable[int](NewObservable(func(o Observer[int]) Teardown { atomic.AddInt32(&total, 1); return nil }))
		c.Subscribe(NoopObserver[int]())
		if total != 0 {
			fails++
			fmt.Printf("REPLAY-FAIL connectable: source subscribed before Connect\n")
		}
		c.Connect()
		c.Connect()
		if total != 1 {
			fails++
			fmt.Printf("REPLAY-FAIL connectable: source subscribed %d times after two Connect calls\n", total)
		}
	}
	if fails > 0 {
		t.Fatalf("%d witness failures", fails)
	}
	fmt.Println("REPLAY-OK share")
}


// TestWitnessSubjectsLive: the subjects that hand a backlog to a new observer (unicast queue, replay buffer, the
// behavior subject's current value) against one producer that keeps emitting from another goroutine while a slow
// observer is still catching up. Bounded (rounds, backlog length, timing); it only backs UNDECIDED units.
// The sequential definition for one sequential producer: the observer sees the backlog first and then the live
// values, in emission order (strictly increasing here), and none of the live values is lost.
func TestWitnessSubjectsLive(t *testing.T) {
	const rounds, backlog, live = 12, 30, 8
	type mk struct {
		kind string
		new  func() Subject[int]
	}
	for _, mkr := range []mk{
		{"unicast", func() Subject[int] { return NewUnicastSubject[int](UnicastSubjectUnlimitedBufferSize) }},
		{"replay", func() Subject[int] { return NewReplaySubject[int](ReplaySubjectUnlimitedBufferSize) }},
		{"behavior", func() Subject[int] { return NewBehaviorSubject(0) }},
	} {
		for round := 0; round < rounds; round++ {
			s := mkr.new()
			for i := 1; i <= backlog; i++ {
				s.Next(i)
			}
			var mu sync.Mutex
			var got []int
			started := make(chan struct{})
			var once sync.Once
			var wg sync.WaitGroup
			wg.Add(1)
			go func() {
				defer wg.Done()
				<-started
				for v := backlog + 1; v <= backlog+live; v++ {
					s.Next(v)
				}
			}()
			sub := s.Subscribe(NewObserver(func(v int) {
				once.Do(func() { close(started) })
				time.Sleep(100 * time.Microsecond)
				mu.Lock()
				got = append(got, v)
				mu.Unlock()
			}, func(error) {}, func() {}))
			wg.Wait()
			sub.Unsubscribe()
			mu.Lock()
			snap := append([]int{}, got...)
			mu.Unlock()
			want := backlog + live
			if mkr.kind == "behavior" {
				want = 1 + live
			}
			bad := len(snap) != want
			for i := 1; i < len(snap); i++ {
				if snap[i] <= snap[i-1] {
					bad = true
				}
			}
			if bad {
				fmt.Printf("REPLAY-FAIL subject[%s] live producer: backlog 1..%d, then %d..%d from another goroutine during the replay to a slow observer: got %v\n", mkr.kind, backlog, backlog+1, backlog+live, snap)
				t.Errorf("WITNESS kind=%s round=%d backlog=1..%d then a live producer %d..%d during the replay to a slow observer: got %v", mkr.kind, round, backlog, backlog+1, backlog+live, snap)
				break
			}
		}
	}
}

// TestWitnessSubjectsLiveTwoProducers: two goroutines emit into one subject while a slow observer is attached. For
// every Next, the value has been handed to the observer when the call returns (no hidden queue, no hand-over to the
// other producer), the values of each producer arrive in the order it sent them, and nothing is lost. Bounded (rounds,
// values per producer); it only backs UNDECIDED units.
func TestWitnessSubjectsLiveTwoProducers(t *testing.T) {
	const rounds, per = 4, 40
	type mk struct {
		kind string
		new  func() Subject[int]
	}
	for _, mkr := range []mk{
		{"publish", func() Subject[int] { return NewPublishSubject[int]() }},
		{"behavior", func() Subject[int] { return NewBehaviorSubject(-1) }},
		{"replay", func() Subject[int] { return NewReplaySubject[int](4) }},
		{"unicast", func() Subject[int] { return NewUnicastSubject[int](4) }},
	} {
		for round := 0; round < rounds; round++ {
			s := mkr.new()
			var mu sync.Mutex
			delivered := map[int]bool{}
			var got []int
			sub := s.Subscribe(NewObserver(func(v int) {
				time.Sleep(30 * time.Microsecond)
				mu.Lock()
				delivered[v] = true
				got = append(got, v)
				mu.Unlock()
			}, func(error) {}, func() {}))
			var early int32
			var firstEarly int64 = -1
			var wg sync.WaitGroup
			for p := 0; p < 2; p++ {
				wg.Add(1)
				go func(p int) {
					defer wg.Done()
					for k := 0; k < per; k++ {
						v := p*1000 + k
						s.Next(v)
						mu.Lock()
						ok := delivered[v]
						mu.Unlock()
						if !ok && atomic.AddInt32(&early, 1) == 1 {
							atomic.StoreInt64(&firstEarly, int64(v))
						}
					}
				}(p)
			}
			wg.Wait()
			s.Complete()
			sub.Unsubscribe()
			mu.Lock()
			snap := append([]int{}, got...)
			mu.Unlock()
			bad := atomic.LoadInt32(&early) > 0
			last := map[int]int{0: -1, 1: -1}
			n := 0
			for _, v := range snap {
				if v < 0 {
					continue // the initial value of the behavior subject
				}
				n++
				if v%1000 <= last[v/1000] {
					bad = true
				}
				last[v/1000] = v % 1000
			}
			if n != 2*per {
				bad = true
			}
			if bad {
				fmt.Printf("REPLAY-FAIL subject[%s] two producers (0..%d and 1000..%d) and a slow observer: %d Next call(s) returned before their value was delivered (first: %d); %d of %d values delivered\n", mkr.kind, per-1, 1000+per-1, atomic.LoadInt32(&early), atomic.LoadInt64(&firstEarly), n, 2*per)
				t.Errorf("WITNESS kind=%s round=%d two producers: early returns %d, delivered %d of %d", mkr.kind, round, atomic.LoadInt32(&early), n, 2*per)
				break
			}
		}
	}
}

type wsCtxKey struct{}

// TestWitnessSubjectsLiveTerminal: a terminal notification sent from another goroutine while a slow observer is still
// receiving the backlog reaches that observer after the whole backlog, once, and with the context it was sent with.
func TestWitnessSubjectsLiveTerminal(t *testing.T) {
	const rounds, backlog = 6, 20
	type mk struct {
		kind string
		new  func() Subject[int]
	}
	for _, mkr := range []mk{
		{"unicast", func() Subject[int] { return NewUnicastSubject[int](UnicastSubjectUnlimitedBufferSize) }},
		{"replay", func() Subject[int] { return NewReplaySubject[int](ReplaySubjectUnlimitedBufferSize) }},
		{"behavior", func() Subject[int] { return NewBehaviorSubject(0) }},
	} {
		for _, term := range []string{"complete", "error"} {
			for round := 0; round < rounds; round++ {
				s := mkr.new()
				for i := 1; i <= backlog; i++ {
					s.Next(i)
				}
				cause := errors.New("witness")
				var mu sync.Mutex
				var trace []string
				started := make(chan struct{})
				var once sync.Once
				var wg sync.WaitGroup
				wg.Add(1)
				go func() {
					defer wg.Done()
					<-started
					ctx := context.WithValue(context.Background(), wsCtxKey{}, "mark")
					if term == "complete" {
						s.CompleteWithContext(ctx)
					} else {
						s.ErrorWithContext(ctx, cause)
					}
				}()
				sub := s.SubscribeWithContext(context.Background(), NewObserverWithContext(func(ctx context.Context, v int) {
					once.Do(func() { close(started) })
					time.Sleep(200 * time.Microsecond)
					mu.Lock()
					trace = append(trace, fmt.Sprintf("N%d", v))
					mu.Unlock()
				}, func(ctx context.Context, err error) {
					mu.Lock()
					trace = append(trace, fmt.Sprintf("E(%v,same=%v)", ctx.Value(wsCtxKey{}), err == cause))
					mu.Unlock()
				}, func(ctx context.Context) {
					mu.Lock()
					trace = append(trace, fmt.Sprintf("C(%v)", ctx.Value(wsCtxKey{})))
					mu.Unlock()
				}))
				wg.Wait()
				sub.Unsubscribe()
				mu.Lock()
				snap := append([]string{}, trace...)
				mu.Unlock()
				var want []string
				if mkr.kind == "behavior" {
					want = append(want, fmt.Sprintf("N%d", backlog))
				} else {
					for i := 1; i <= backlog; i++ {
						want = append(want, fmt.Sprintf("N%d", i))
					}
				}
				if term == "complete" {
					want = append(want, "C(mark)")
				} else {
					want = append(want, "E(mark,same=true)")
				}
				if fmt.Sprint(snap) != fmt.Sprint(want) {
					fmt.Printf("REPLAY-FAIL subject[%s] backlog 1..%d, then %s with a context carrying a value from another goroutine during the replay to a slow observer: got %v, want %v\n", mkr.kind, backlog, term, snap, want)
					t.Errorf("WITNESS kind=%s %s during the replay: got %v", mkr.kind, term, snap)
					break
				}
			}
		}
	}
}

// TestWitnessHandOffLive: the hand-off operators let a producer run ahead of a stalled consumer by at most their
// capacity plus the one value each side holds. The consumer blocks inside its first callback; the producer emits from
// its own goroutine; after a pause the number of Next calls that returned is at most capacity + 1 (and one more may
// be in flight). Bounded (capacities 1..4 and 8, one pause); it only backs UNDECIDED units.
func TestWitnessHandOffLive(t *testing.T) {
	type mk struct {
		kind string
		op   func(int) func(Observable[int]) Observable[int]
	}
	for _, mkr := range []mk{
		{"ObserveOn", func(c int) func(Observable[int]) Observable[int] { return ObserveOn[int](c) }},
		{"SubscribeOn", func(c int) func(Observable[int]) Observable[int] { return SubscribeOn[int](c) }},
	} {
		for _, capacity := range []int{1, 2, 3, 4, 8} {
			src := NewPublishSubject[int]()
			release := make(chan struct{})
			var got int32
			subscribed := make(chan Subscription, 1)
			go func() { // SubscribeOn consumes on the goroutine that subscribes: Subscribe returns when the stream ends
				subscribed <- mkr.op(capacity)(src.AsObservable()).Subscribe(NewObserver(func(v int) {
					if atomic.AddInt32(&got, 1) == 1 {
						<-release
					}
				}, func(error) {}, func() {}))
			}()
			for i := 0; i < 2000 && !src.HasObserver(); i++ {
				time.Sleep(time.Millisecond)
			}
			var returned int32
			stop := make(chan struct{})
			var wg sync.WaitGroup
			wg.Add(1)
			go func() {
				defer wg.Done()
				for v := 0; v < 64; v++ {
					select {
					case <-stop:
						return
					default:
					}
					src.Next(v)
					atomic.AddInt32(&returned, 1)
				}
			}()
			time.Sleep(60 * time.Millisecond)
			lead := int(atomic.LoadInt32(&returned))
			close(stop)
			close(release)
			wg.Wait()
			src.Complete()
			(<-subscribed).Wait()
			if lead > capacity+1 {
				fmt.Printf("REPLAY-FAIL %s(%d): with the consumer stalled in its first callback %d Next calls of the producer returned, at most capacity + 1 = %d may\n", mkr.kind, capacity, lead, capacity+1)
				t.Errorf("WITNESS %s(%d): producer ran ahead by %d", mkr.kind, capacity, lead)
				return
			}
		}
	}
}

// TestWitnessShareReconnect: a connectable observable that is connected again while its previous connection is being
// torn down (from the source's own teardown here; from another goroutine in general): the end of the previous
// connection is handled once, before the new connection starts - subscribers that arrive afterwards join the running
// connection. Both ways a connection ends: unsubscription and completion of the source.
func TestWitnessShareReconnect(t *testing.T) {
	for _, how := range []string{"unsubscribe", "complete"} {
		var dests []Observer[int]
		var c ConnectableObservable[int]
		reconnect := true
		c = NewConnectableObservable(func(d Observer[int]) Teardown {
			dests = append(dests, d)
			return func() {
				if reconnect {
					reconnect = false
					c.Connect()
				}
			}
		})
		conn := c.Connect()
		if how == "unsubscribe" {
			conn.Unsubscribe()
		} else {
			dests[0].Complete()
		}
		if len(dests) != 2 {
			fmt.Printf("REPLAY-FAIL connectable (%s): Connect from the teardown of the previous connection made %d connection(s) in all, want 2\n", how, len(dests))
			t.Errorf("WITNESS connectable reconnect %s: %d connections", how, len(dests))
			continue
		}
		var got []int
		sub := c.Subscribe(OnNext(func(v int) { got = append(got, v) }))
		dests[1].Next(42)
		dests[1].Next(43)
		sub.Unsubscribe()
		if fmt.Sprint(got) != "[42 43]" {
			fmt.Printf("REPLAY-FAIL connectable (%s): connected again while the previous connection was torn down; a subscriber that joins afterwards receives %v from the running connection, want [42 43]\n", how, got)
			t.Errorf("WITNESS connectable reconnect %s: got %v", how, got)
		}
	}
}

// TestWitnessTimeDriven: lower bounds only (a timer never fires early, so these hold under any load): value k of
// Interval(p) not before (k+1) periods, value k of IntervalWithInitial(i, p) not before i + k periods, Timer(d) not
// before d, Delay(d) not before d after the emission and in emission order; values are 0, 1, 2, ... and nothing
// arrives after Unsubscribe has returned and one more period has passed. Bounded; it only backs UNDECIDED units.
func TestWitnessTimeDriven(t *testing.T) {
	const p = 15 * time.Millisecond
	const slack = 500 * time.Microsecond
	type stamp struct {
		v  int64
		at time.Duration
	}
	run := func(name string, o Observable[int64], n int, bound func(k int) time.Duration) {
		var mu sync.Mutex
		var got []stamp
		start := time.Now()
		done := make(chan struct{})
		var once sync.Once
		sub := o.Subscribe(NewObserver(func(v int64) {
			at := time.Since(start)
			if v == 0 {
				time.Sleep(time.Millisecond) // a consumer that takes its time over the first value (bounds are lower bounds)
			}
			mu.Lock()
			got = append(got, stamp{v, at})
			if len(got) == n {
				once.Do(func() { close(done) })
			}
			mu.Unlock()
		}, func(error) {}, func() {}))
		select {
		case <-done:
		case <-time.After(time.Duration(n+6)*p + 2*time.Second):
		}
		sub.Unsubscribe()
		mu.Lock()
		atUnsub := len(got)
		mu.Unlock()
		time.Sleep(3 * p)
		mu.Lock()
		snap := append([]stamp{}, got...)
		mu.Unlock()
		if len(snap) > atUnsub+1 {
			fmt.Printf("REPLAY-FAIL %s: %d value(s) arrived after Unsubscribe returned\n", name, len(snap)-atUnsub)
			t.Errorf("WITNESS %s: values after unsubscription", name)
		}
		for k, s := range snap {
			if k >= n {
				break
			}
			if s.v != int64(k) || s.at+slack < bound(k) {
				fmt.Printf("REPLAY-FAIL %s: value #%d is %d and arrived %v after subscription; it is value %d and is due no sooner than %v\n", name, k, s.v, s.at, k, bound(k))
				t.Errorf("WITNESS %s: value #%d = %d at %v (bound %v)", name, k, s.v, s.at, bound(k))
				return
			}
		}
		if len(snap) < n {
			fmt.Printf("REPLAY-FAIL %s: only %d of %d values arrived\n", name, len(snap), n)
			t.Errorf("WITNESS %s: %d of %d values", name, len(snap), n)
		}
	}
	run("Interval(15ms)", Interval(p), 4, func(k int) time.Duration { return time.Duration(k+1) * p })
	run("IntervalWithInitial(0, 15ms)", IntervalWithInitial(0, p), 4, func(k int) time.Duration { return time.Duration(k) * p })
	run("IntervalWithInitial(10ms, 15ms)", IntervalWithInitial(10*time.Millisecond, p), 4, func(k int) time.Duration { return 10*time.Millisecond + time.Duration(k)*p })
	for round := 0; round < 12 && !t.Failed(); round++ {
		run("Delay(20ms) over Range(0, 1000)", Delay[int64](20*time.Millisecond)(Range(0, 1000)), 1000, func(k int) time.Duration { return 20 * time.Millisecond })
	}
}
