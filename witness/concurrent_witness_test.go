// Concurrent-order witnesses for the P11 obligations (take-and-deliver ordering). Each drives an operator from two
// goroutines and checks what every arrival order guarantees: the values of one source are delivered in their order
// and none is lost. Bounded (rounds, values) and timing-dependent: a search for a failing schedule on the real code
// after a P11 obligation has failed; it never decides a pass. Mapped to /repo/zz_rovc_cwitness_test.go.
package ro

import (
	"fmt"
	"sync"
	"sync/atomic"
	"testing"

	"github.com/samber/lo"
)

func cwFeed(n int, subjects ...Subject[int]) {
	var wg sync.WaitGroup
	for _, s := range subjects {
		wg.Add(1)
		go func(s Subject[int]) {
			defer wg.Done()
			for i := 0; i < n; i++ {
				s.Next(i)
			}
		}(s)
	}
	wg.Wait()
}

func TestWitnessConcurrentOrder(t *testing.T) {
	const n, rounds = 200000, 6
	t.Run("Zip2", func(t *testing.T) {
		for r := 0; r < rounds; r++ {
			a, b := NewPublishSubject[int](), NewPublishSubject[int]()
			last, bad, count := -1, 0, 0
			sub := Zip2[int, int](a, b).Subscribe(NewObserver(func(v lo.Tuple2[int, int]) {
				count++
				if v.A != v.B || v.A != last+1 {
					bad++
				}
				last = v.A
			}, func(error) {}, func() {}))
			cwFeed(n, a, b)
			sub.Unsubscribe()
			if bad > 0 || count != n {
				fmt.Printf("REPLAY-FAIL Zip2 over two subjects fed 0..%d from two goroutines: %d tuples out of order or unpaired, %d of %d tuples delivered\n", n-1, bad, count, n)
				t.Fail()
				return
			}
		}
	})
	t.Run("CombineLatest2", func(t *testing.T) {
		for r := 0; r < rounds; r++ {
			a, b := NewPublishSubject[int](), NewPublishSubject[int]()
			lastA, lastB, bad := -1, -1, 0
			sub := CombineLatest2[int, int](a, b).Subscribe(NewObserver(func(v lo.Tuple2[int, int]) {
				if v.A < lastA || v.B < lastB {
					bad++
				}
				lastA, lastB = v.A, v.B
			}, func(error) {}, func() {}))
			cwFeed(n, a, b)
			sub.Unsubscribe()
			if bad > 0 {
				fmt.Printf("REPLAY-FAIL CombineLatest2 over two subjects fed 0..%d from two goroutines: %d combinations carried an older value of a source than one already delivered\n", n-1, bad)
				t.Fail()
				return
			}
		}
	})
	t.Run("WindowWhen", func(t *testing.T) {
		for r := 0; r < rounds; r++ {
			src, bd := NewPublishSubject[int](), NewPublishSubject[int]()
			var got int64
			sub := WindowWhen[int, int](bd)(src).Subscribe(NewObserver(func(w Observable[int]) {
				w.Subscribe(NewObserver(func(int) { atomic.AddInt64(&got, 1) }, func(error) {}, func() {}))
			}, func(error) {}, func() {}))
			var stop int32
			var wg sync.WaitGroup
			wg.Add(2)
			go func() {
				defer wg.Done()
				for i := 0; i < n; i++ {
					src.Next(i)
				}
				atomic.StoreInt32(&stop, 1)
			}()
			go func() {
				defer wg.Done()
				for atomic.LoadInt32(&stop) == 0 {
					bd.Next(0)
				}
			}()
			wg.Wait()
			src.Complete()
			sub.Unsubscribe()
			if g := atomic.LoadInt64(&got); g != n {
				fmt.Printf("REPLAY-FAIL WindowWhen: the source emitted %d values while the boundary ticked from another goroutine; the windows delivered %d\n", n, g)
				t.Fail()
				return
			}
		}
	})
	t.Run("BufferWhen", func(t *testing.T) {
		for r := 0; r < rounds; r++ {
			src, bd := NewPublishSubject[int](), NewPublishSubject[int]()
			last, bad, count := -1, 0, 0
			sub := BufferWhen[int, int](bd)(src).Subscribe(NewObserver(func(vs []int) {
				for _, v := range vs {
					count++
					if v != last+1 {
						bad++
					}
					last = v
				}
			}, func(error) {}, func() {}))
			var stop int32
			var wg sync.WaitGroup
			wg.Add(2)
			go func() {
				defer wg.Done()
				for i := 0; i < n; i++ {
					src.Next(i)
				}
				atomic.StoreInt32(&stop, 1)
			}()
			go func() {
				defer wg.Done()
				for atomic.LoadInt32(&stop) == 0 {
					bd.Next(0)
				}
			}()
			wg.Wait()
			src.Complete()
			sub.Unsubscribe()
			if bad > 0 || count != n {
				fmt.Printf("REPLAY-FAIL BufferWhen: the source emitted 0..%d while the boundary ticked from another goroutine; %d values out of order, %d of %d delivered\n", n-1, bad, count, n)
				t.Fail()
				return
			}
		}
	})
}
