#!/bin/sh
# Build the verifier offline from files on disk only.
set -e
cd "$(dirname "$0")/rovc"
export GOFLAGS=-mod=mod GOPROXY=off GOSUMDB=off GOTOOLCHAIN=local
mkdir -p ../bin
go build -o ../bin/rovc .
