"""Replay of failed obligations against the real code.

A replay never decides a pass: it is run only after an obligation failed, to find a concrete failing input.
Everything is run with `go test -overlay` from /repo's workspace, with GOWORK pointing at a scratch copy of
go.work (absolute paths) so that nothing under /repo is written.
"""
import json
import os
import re
import shutil
import subprocess
import tempfile

import replaygen

KERNEL_WITNESS = [
    (r"^\(\*observerImpl\)|^\(\*subscriberImpl\)|^newSubscriberImpl|^NewSubscriberWithConcurrencyMode|^\(\*observableImpl\)", "TestWitnessGate", "gate"),
    (r"^\(\*subscriptionImpl\)|^execFinalizer|^NewSubscription", "TestWitnessSubscription", "subscription"),
    (r"SubjectImpl\)", "TestWitnessSubjects(Live)?", "subject"),
    (r"^ShareWithConfig|^\(\*connectableObservableImpl\)", "TestWitnessShare", "share"),
]


# operators with a hand-written reference definition in witness/operator_witness_test.go (subtest name), and the
# functions whose obligations they can replay
OP_WITNESS = {}
for _sub, _names in {
    "TakeLast": ["TakeLast"], "SkipLast": ["SkipLast"], "Distinct": ["Distinct"], "DistinctByWithContext": ["DistinctBy", "DistinctByWithContext"],
    "Pairwise": ["Pairwise"], "BufferWithCount": ["BufferWithCount"], "StartWith": ["StartWith"], "EndWith": ["EndWith"], "ToSlice": ["ToSlice"],
    "ToMapIWithContext": ["ToMap", "ToMapI", "ToMapWithContext", "ToMapIWithContext"],
    "SkipWhileIWithContext": ["SkipWhile", "SkipWhileI", "SkipWhileWithContext", "SkipWhileIWithContext"], "Flatten": ["Flatten"], "Average": ["Average"],
    "ConcatWith": ["ConcatWith", "Concat", "ConcatAll"], "MergeWith1": ["MergeWith1", "MergeWith", "Merge", "MergeAll"], "Catch": ["Catch"],
    "RepeatWith": ["RepeatWith"], "RetryWithConfig": ["RetryWithConfig", "Retry"],
    "DefaultIfEmptyWithContext": ["DefaultIfEmpty", "DefaultIfEmptyWithContext"],
    "GroupByIWithContext": ["GroupBy", "GroupByI", "GroupByWithContext", "GroupByIWithContext"],
}.items():
    for _n in _names:
        OP_WITNESS[_n] = _sub


OP_WITNESS2 = {}
for _sub, _names in {
    "Zip2": ["Zip2", "ZipWith1", "ZipWith", "zipInnerSubscription", "Zip3", "ZipWith2", "Zip4", "ZipWith3", "Zip5", "ZipWith4", "Zip6", "ZipWith5"],
    "CombineLatest2": ["CombineLatest2", "CombineLatestWith1", "CombineLatestWith"],
    "MergeWith1": ["MergeWith1", "MergeAll", "Merge", "MergeWith"],
    "TakeUntil": ["TakeUntil"], "SkipUntil": ["SkipUntil"],
}.items():
    for _n in _names:
        OP_WITNESS2[_n] = _sub


def scratch_gowork(repo):
    d = tempfile.mkdtemp(prefix="rovc-replay-")
    out = []
    for line in open(os.path.join(repo, "go.work")):
        m = re.match(r"^(\s*(?:use\s+)?)(\.[^\s)]*)\s*$", line.rstrip("\n"))
        if m and not line.strip().startswith("//"):
            out.append(m.group(1) + os.path.normpath(os.path.join(repo, m.group(2))))
        else:
            out.append(line.rstrip("\n"))
    with open(os.path.join(d, "go.work"), "w") as f:
        f.write("\n".join(out) + "\n")
    sumf = os.path.join(repo, "go.work.sum")
    if os.path.exists(sumf):
        shutil.copy(sumf, os.path.join(d, "go.work.sum"))
    return d


def run_overlay(repo, files, run_pattern, pkg_dir=".", timeout=120, race=False):
    """files: {name in package dir: source text}. Returns (output, fail_lines)."""
    d = scratch_gowork(repo)
    try:
        replace = {}
        for name, src in files.items():
            p = os.path.join(d, name)
            with open(p, "w") as f:
                f.write(src)
            replace[os.path.join(repo, pkg_dir, name)] = p
        ov = os.path.join(d, "ov.json")
        with open(ov, "w") as f:
            json.dump({"Replace": replace}, f)
        env = dict(os.environ)
        env.update({"GOFLAGS": "", "GOWORK": os.path.join(d, "go.work"), "GOPROXY": "off", "GOSUMDB": "off", "GOTOOLCHAIN": "local"})
        cmd = ["go", "test", "-trimpath", "-overlay", ov, "-vet=off", "-count=1", "-v", "-timeout", "%ds" % timeout, "-run", run_pattern]
        if race:
            cmd.append("-race")
        cmd.append(".")
        try:
            r = subprocess.run(cmd, cwd=os.path.join(repo, pkg_dir), env=env, capture_output=True, text=True, timeout=timeout + 30)
            out = r.stdout + r.stderr
        except subprocess.TimeoutExpired as e:
            out = "TIMEOUT after %ss\n%s" % (timeout, (e.stdout or b"").decode() if isinstance(e.stdout, bytes) else (e.stdout or ""))
        fails = [l for l in out.splitlines() if l.startswith("REPLAY-FAIL")]
        return out, fails
    finally:
        shutil.rmtree(d, ignore_errors=True)


def _write(path, rec):
    os.makedirs(os.path.dirname(path), exist_ok=True)
    with open(path, "w") as f:
        json.dump(rec, f, indent=1)


def operator_of(ob):
    """The operator (top-level function) an obligation is about."""
    name = ob["name"]
    if ob.get("layer") == "M":
        return ob.get("func") or name.split("/")[0]
    if ob.get("layer") == "P":
        parts = name.split("/")
        if len(parts) >= 2:
            return parts[1].split("#")[0]
    return None


def attempt(pid, ob, res, path, repo, root, seed, gen=None):
    """Try to reproduce a failed obligation on the real code. Returns True when a failing input was found."""
    rec = {
        "property": pid,
        "obligation": ob["name"],
        "clause": ob.get("clause"),
        "function": ob.get("func"),
        "position": ob.get("pos"),
        "note": ob.get("note"),
        "status": res["status"],
        "solver": res.get("solver"),
        "solver_answers": res.get("answers"),
        "solver_output": res.get("model"),
        "replayed": False,
        "failing_input": None,
    }
    found = False
    try:
        op = operator_of(ob)
        descs = {d["op"]: d for d in ((gen or {}).get("replay_descs") or [])}
        if op and op not in descs and gen is not None:
            # the descriptor may belong to a contract not tagged with this property: ask rovc for it
            descs.update(_desc_for(repo, root, op))
        if op and op in descs:
            d = descs[op]
            src, done = replaygen.gen_file([d], max_len=4)
            if done:
                out, fails = run_overlay(repo, {"zz_rovc_replay_test.go": src}, "TestRovcReplay_" + op + "$")
                rec["replay_kind"] = "operator contract machine vs real operator, all scripts up to length 4 over {0,1,2} x {complete,error,unsubscribe}, every small parameter value"
                rec["replay_test"] = src
                rec["replay_output"] = out[-6000:]
                if fails:
                    found = True
                    rec["failing_input"] = fails[:5]
            else:
                rec["replay_note"] = "operator %s cannot be driven by the generic harness: %s" % (op, d.get("why"))
        elif ob.get("layer") == "K":
            fn = ob.get("func") or ob["name"].split("/")[0]
            for pat, test, kind in KERNEL_WITNESS:
                if re.search(pat, fn):
                    files = {
                        "zz_rovc_witness_test.go": open(os.path.join(root, "witness", "kernel_witness_test.go")).read(),
                        "zz_rovc_witness2_test.go": open(os.path.join(root, "witness", "subject_witness_test.go")).read(),
                    }
                    out, fails = run_overlay(repo, files, test + "$")
                    rec["replay_kind"] = "bounded witness %s (%s): every operation sequence up to a small bound against the reference definition" % (test, kind)
                    rec["replay_output"] = out[-6000:]
                    if fails:
                        found = True
                        rec["failing_input"] = fails[:5]
                    break
            else:
                rec["replay_note"] = "no witness registered for " + fn
        else:
            rec["replay_note"] = "no replay generator for this obligation (site without an executable contract machine)"
        if not found:
            base = (op or ob.get("func") or ob["name"].split("/")[0]).split("$")[0]
            sub = OP_WITNESS.get(base)
            if sub:
                src = open(os.path.join(root, "witness", "operator_witness_test.go")).read()
                out, fails = run_overlay(repo, {"zz_rovc_opwitness_test.go": src}, "TestWitnessOperators/" + sub + "$", timeout=60)
                rec["replay_kind"] = "operator witness %s: hand-written reference definition vs the real operator on every script up to length 4 over {0,1,2} x {complete,error,none}" % sub
                rec["replay_output"] = out[-6000:]
                if fails:
                    found = True
                    rec["failing_input"] = fails[:5]
            if not found and ob["name"].startswith("P11/"):
                # take-and-deliver ordering: search for a failing schedule with two real goroutines
                cw = None
                for key, sub in (("Zip", "Zip2"), ("CombineLatest", "CombineLatest2"), ("WindowWhen", "WindowWhen"), ("BufferWhen", "BufferWhen")):
                    if base.startswith(key):
                        cw = sub
                if cw:
                    src = open(os.path.join(root, "witness", "concurrent_witness_test.go")).read()
                    out, fails = run_overlay(repo, {"zz_rovc_cwitness_test.go": src}, "TestWitnessConcurrentOrder/" + cw + "$", timeout=120)
                    rec["replay_kind"] = "concurrent-order witness %s: the operator driven from two goroutines, per-source order and completeness checked (bounded, timing-dependent)" % cw
                    rec["replay_output"] = out[-6000:]
                    if fails:
                        found = True
                        rec["failing_input"] = fails[:5]
            sub2 = OP_WITNESS2.get(base)
            if sub2 and not found:
                src = open(os.path.join(root, "witness", "operator_witness_test.go")).read()
                out, fails = run_overlay(repo, {"zz_rovc_opwitness_test.go": src}, "TestWitnessTwoSourceOperators/" + sub2 + "$", timeout=90)
                rec["replay_kind"] = "two-source witness %s: sequential definition vs the real operator on every interleaving of the notifications of two subjects up to length 5" % sub2
                rec["replay_output"] = out[-6000:]
                if fails:
                    found = True
                    rec["failing_input"] = fails[:5]
    except Exception as e:  # a broken replay must never hide the violation
        rec["replay_error"] = repr(e)
    rec["replayed"] = found
    _write(path, rec)
    return found


def _desc_for(repo, root, op):
    tmp = tempfile.mkdtemp(prefix="rovc-desc-")
    try:
        out = os.path.join(tmp, "d.json")
        r = subprocess.run([os.path.join(root, "bin", "rovc"), "gen", "-repo", repo, "-layers", "M", "-only", op, "-o", out], capture_output=True, text=True)
        if r.returncode != 0:
            return {}
        with open(out) as f:
            g = json.load(f)
        return {d["op"]: d for d in (g.get("replay_descs") or []) if d["op"] == op}
    finally:
        shutil.rmtree(tmp, ignore_errors=True)


def rerun(path):
    with open(path) as f:
        rec = json.load(f)
    print("obligation:", rec.get("obligation"))
    print("clause:    ", rec.get("clause"))
    print("status:    ", rec.get("status"), "by", rec.get("solver"))
    if rec.get("failing_input"):
        for l in rec["failing_input"]:
            print(l)
    src = rec.get("replay_test")
    if src:
        repo = os.environ.get("VERIF_REPO", "/repo")
        m = re.search(r"func (TestRovcReplay_\w+)\(", src)
        out, fails = run_overlay(repo, {"zz_rovc_replay_test.go": src}, (m.group(1) if m else "TestRovcReplay") + "$")
        for l in fails[:10]:
            print(l)
        print("replay now:", "FAILS" if fails else "passes")
        return 1 if fails else 0
    print("solver output:\n", (rec.get("solver_output") or "")[:2000])
    return 1 if rec.get("replayed") else 0


def spec_validation(gen, repo, known_ops=()):
    """Thorough tier: run every executable contract machine against the real operator. Returns (ops, mismatches)."""
    descs = [d for d in (gen.get("replay_descs") or []) if d.get("interpretable")]
    if not descs:
        return [], []
    src, done = replaygen.gen_file(descs, max_len=4)
    out, fails = run_overlay(repo, {"zz_rovc_replay_test.go": src}, "TestRovcReplay_", timeout=300)
    return done, fails


def bounded_fallback(pid, repo, root, seed, lines, outdir=None):
    """When contracts stopped binding (UNDECIDED), run the bounded witnesses of the property as a search for a
    concrete failing input. Returns True when one was found."""
    tests = {
        "C01": "TestWitnessGate|TestWitnessSubjects", "C02": "TestWitnessGate|TestWitnessSubjectsLive", "C03": "TestWitnessSubscription|TestWitnessGate",
        "C05": "TestWitnessSubjectsLive", "C08": "TestWitnessSubjectsLive|TestWitnessHandOff", "C13": "TestWitnessSubjectsLive", "C20": "TestWitnessSubjectsLive",
        "C09": "TestWitnessSubjectsLive", "C17": "TestWitnessSubscription", "C16": "TestWitnessTimeDriven",
        "C06": "TestWitnessGate|TestWitnessSubscription", "C07": "TestWitnessGate|TestWitnessSubscription",
        "C10": "TestWitnessSubjects", "C11": "TestWitnessShare", "C14": "TestWitnessSubscription", "C15": "TestWitnessSubscription",
    }.get(pid)
    if not tests:
        return False
    try:
        files = {
            "zz_rovc_witness_test.go": open(os.path.join(root, "witness", "kernel_witness_test.go")).read(),
            "zz_rovc_witness2_test.go": open(os.path.join(root, "witness", "subject_witness_test.go")).read(),
        }
        out, fails = run_overlay(repo, files, tests)
    except Exception:
        return False
    if not fails:
        return False
    rp = os.path.join(outdir or root, "replays", pid, "bounded-witness.json")
    _write(rp, {"property": pid, "obligation": "bounded witness after UNDECIDED obligations", "failing_input": fails[:10], "replay_output": out[-6000:], "replayed": True})
    lines.append("VIOLATION property=%s replay=%s" % (pid, rp))
    return True
