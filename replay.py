"""Replay of failed obligations against the real code (go test -overlay in /repo's workspace)."""
import json
import os


def attempt(pid, ob, res, path, repo, root, seed):
    """Try to reproduce a failed obligation on the real code. Returns True when a failing input was found."""
    rec = {
        "property": pid,
        "obligation": ob["name"],
        "clause": ob.get("clause"),
        "function": ob.get("func"),
        "position": ob.get("pos"),
        "status": res["status"],
        "solver": res.get("solver"),
        "solver_answers": res.get("answers"),
        "solver_output": res.get("model"),
        "replayed": False,
        "note": "no replay generator is registered for this obligation class",
    }
    with open(path, "w") as f:
        json.dump(rec, f, indent=1)
    return False


def rerun(path):
    with open(path) as f:
        rec = json.load(f)
    print(json.dumps({k: rec.get(k) for k in ("property", "obligation", "clause", "status", "replayed")}, indent=1))
    return 1 if rec.get("replayed") else 0


def bounded_fallback(pid, repo, root, seed, lines):
    return False
