package ro

// Finding (C04, C09), repaired in /repo by "fix: Timeout stored contexts of different concrete types in one atomic.Value":
// Timeout kept the last notification context in a sync/atomic.Value, first storing the subscriber context. atomic.Value
// panics when a later Store brings another concrete type, which is the case as soon as an upstream operator derives a
// context (ContextWithValue, ContextWithTimeout ...): Just(1,2,3) | ContextWithValue | Timeout(1s) delivered 1 and then the
// Error "sync/atomic: store of inconsistently typed value into Value".
// Found by the obligation P12/Timeout/atomic-value:lastCtx/stores-one-concrete-type (structural: no solver input).
// Place in /repo (package ro): go test -vet=off -count=1 -run TestTimeoutWithDerivedContext .
import (
	"context"
	"testing"
	"time"
)

type toKey struct{}

func TestTimeoutWithDerivedContext(t *testing.T) {
	var got []int
	var gotErr error
	done := false
	obs := Pipe2(Just(1, 2, 3), ContextWithValue[int](toKey{}, "v"), Timeout[int](time.Second))
	sub := obs.SubscribeWithContext(context.Background(), NewObserver(func(v int) { got = append(got, v) }, func(err error) { gotErr = err }, func() { done = true }))
	sub.Wait()
	if gotErr != nil || !done || len(got) != 3 {
		t.Fatalf("Just(1,2,3) | ContextWithValue | Timeout(1s): got %v, err %v, completed %v", got, gotErr, done)
	}
}
