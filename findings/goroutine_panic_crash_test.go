// Demonstration (before the fix commits) that the bare goroutines of ThrowOnContextCancel / Never /
// ToChannel let a panic escape and kill the process: a terminal notification delivered from the
// library goroutine closes the downstream subscriber, which runs a user teardown that panics; the
// panic is re-raised by Unsubscribe and nothing recovers it.
// Run: cd /repo && go test -overlay <ov.json mapping /repo/zz_finding_test.go to this file> -vet=off -count=1 -run TestFindingGoroutinePanic .
package ro

import (
	"context"
	"os"
	"os/exec"
	"strings"
	"testing"
	"time"
)

func TestFindingGoroutinePanic(t *testing.T) {
	if os.Getenv("FINDING_CHILD") == "1" {
		OnUnhandledError = func(ctx context.Context, err error) {}
		ctx, cancel := context.WithCancel(context.Background())
		// downstream of ThrowOnContextCancel: a user observable whose teardown panics
		outer := NewObservable(func(destination Observer[int]) Teardown {
			Pipe1(NewObservable(func(o Observer[int]) Teardown { return nil }), ThrowOnContextCancel[int]()).SubscribeWithContext(ctx, destination)
			return func() { panic("teardown boom") }
		})
		outer.SubscribeWithContext(ctx, NoopObserver[int]())
		cancel()
		time.Sleep(200 * time.Millisecond)
		return
	}
	cmd := exec.Command(os.Args[0], "-test.run=^TestFindingGoroutinePanic$", "-test.count=1")
	cmd.Env = append(os.Environ(), "FINDING_CHILD=1")
	out, err := cmd.CombinedOutput()
	if err != nil || !strings.Contains(string(out), "PASS") {
		t.Fatalf("REPLAY-FAIL P6: a panic raised under a library goroutine killed the process (child: %v)\n%s", err, tail(string(out), 600))
	}
}

func tail(s string, n int) string {
	if len(s) > n {
		return s[len(s)-n:]
	}
	return s
}
