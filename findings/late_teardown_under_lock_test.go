// Finding (C03, C06, C07), repaired in /repo by "fix: Subscription.Add ran a teardown added after disposal while holding the
// subscription's mutex": Unsubscribe runs the finalizers outside the lock, but Add on a closed subscription called the
// teardown under `defer s.mu.Unlock()`. A late teardown that asks its own subscription anything (IsClosed, Add,
// Unsubscribe) blocked forever; so did Catch when its fallback was added to an already closed composite whose teardown
// re-entered it. Found by the documentation audit ("This method is thread-safe", finalizers-run-unlocked on Unsubscribe
// only); obligation (*subscriptionImpl).Add/ensures:a-late-teardown-runs-unlocked.
// Place in /repo (package ro): go test -vet=off -count=1 -run TestLateTeardownMayUseItsSubscription .
package ro

import (
	"testing"
	"time"
)

func TestLateTeardownMayUseItsSubscription(t *testing.T) {
	s := NewSubscription(nil)
	s.Unsubscribe()
	done := make(chan bool, 1)
	go func() {
		s.Add(func() { done <- s.IsClosed() }) // added after disposal: runs at once
	}()
	select {
	case closed := <-done:
		if !closed {
			t.Fatalf("IsClosed() = false inside a teardown added after disposal")
		}
	case <-time.After(time.Second):
		t.Fatalf("REPLAY-FAIL a teardown added after disposal that asks its own subscription IsClosed() never returns: Add runs it while holding the subscription's mutex")
	}
}
