// Finding (C02): internal/xsync MutexWithSpinlock.TryLock returns the negation of what happened: false when it took
// the lock (and keeps it), true when the lock was busy. Mapped to /repo/internal/xsync/zz_finding_test.go.
package xsync

import "testing"

func TestFindingSpinlockTryLockReportsWhatHappened(t *testing.T) {
	m := NewMutexWithSpinlock()
	if !m.TryLock() {
		t.Fatalf("REPLAY-FAIL MutexWithSpinlock.TryLock on a free lock returned false (and the lock is now held)")
	}
	if m.TryLock() {
		t.Fatalf("REPLAY-FAIL MutexWithSpinlock.TryLock on a held lock returned true")
	}
	m.Unlock()
}
