package ro

import (
	"reflect"
	"testing"
	"time"
)

// The range is [start:end): 0, 3, 6 and 9 are all below 10. The timed variant counted floor((end-start)/step) values.
func TestRangeWithStepAndIntervalEmitsTheWholeRange(t *testing.T) {
	want, _ := Collect(RangeWithStep(0, 10, 3))
	got, err := Collect(RangeWithStepAndInterval(0, 10, 3, time.Millisecond))
	if err != nil || !reflect.DeepEqual(got, want) {
		t.Fatalf("REPLAY-FAIL RangeWithStepAndInterval(0, 10, 3): got %v (err %v), want %v as RangeWithStep", got, err, want)
	}
	want, _ = Collect(RangeWithStep(10, 0, 4))
	got, err = Collect(RangeWithStepAndInterval(10, 0, 4, time.Millisecond))
	if err != nil || !reflect.DeepEqual(got, want) {
		t.Fatalf("REPLAY-FAIL RangeWithStepAndInterval(10, 0, 4): got %v (err %v), want %v as RangeWithStep", got, err, want)
	}
}
