// Demonstration (before the fix commit) of the subscriber-reuse defect (C02, C13): a pass-through operator
// (StartWith) hands its own unsafe subscriber upstream; the safe multi-source operator above it (Merge) reused
// that subscriber instead of creating a locking one, so two sources emitting from two goroutines ran the
// observer's callbacks at the same time.
// Run: cd /repo && go test -overlay <ov.json mapping /repo/zz_finding_test.go to this file> -vet=off -count=1 -run TestFindingSubscriberReuseOverlap .
package ro

import (
	"sync"
	"sync/atomic"
	"testing"
	"time"
)

func TestFindingSubscriberReuseOverlap(t *testing.T) {
	a, b := NewPublishSubject[int](), NewPublishSubject[int]()
	pipeline := Pipe1(Merge[int](a, b), StartWith(0))
	var inside, maxInside int32
	release := make(chan struct{})
	sub := pipeline.Subscribe(NewObserver(
		func(v int) {
			n := atomic.AddInt32(&inside, 1)
			if n > atomic.LoadInt32(&maxInside) {
				atomic.StoreInt32(&maxInside, n)
			}
			if v == 1 {
				<-release // the first producer is parked inside the callback
			}
			atomic.AddInt32(&inside, -1)
		},
		func(error) {}, func() {},
	))
	defer sub.Unsubscribe()
	var wg sync.WaitGroup
	wg.Add(2)
	go func() { defer wg.Done(); a.Next(1) }()
	for atomic.LoadInt32(&inside) == 0 {
		time.Sleep(time.Millisecond)
	}
	go func() { defer wg.Done(); b.Next(2) }()
	time.Sleep(50 * time.Millisecond)
	close(release)
	wg.Wait()
	if atomic.LoadInt32(&maxInside) > 1 {
		t.Fatalf("REPLAY-FAIL C02: %d callbacks of one observer ran at the same time (Merge above StartWith)", maxInside)
	}
}
