// Demonstration of the known finding on the unicast subject (C10): the backlog queued while nobody was
// subscribed is dropped when the first subscriber arrives after termination.
// Run: cd /repo && go test -overlay <ov.json mapping /repo/zz_finding_test.go to this file> -vet=off -count=1 -run TestFindingUnicastLateBacklog .
package ro

import (
	"fmt"
	"testing"
)

func TestFindingUnicastLateBacklog(t *testing.T) {
	s := NewUnicastSubject[int](10)
	s.Next(1)
	s.Next(2)
	s.Complete()
	var got []string
	s.Subscribe(NewObserver(
		func(v int) { got = append(got, fmt.Sprint(v)) },
		func(err error) { got = append(got, "error") },
		func() { got = append(got, "complete") },
	))
	if fmt.Sprint(got) != "[1 2 complete]" {
		t.Fatalf("REPLAY-FAIL unicast late subscriber: got %v, want [1 2 complete] (the backlog nobody consumed, then the stored terminal)", got)
	}
}
