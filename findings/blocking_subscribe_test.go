// Finding (C14): the re-subscribing operators wait for each attempt inside their subscribe function
// (source.Subscribe(...).Wait()), and hand their teardown out only when that function returns. A downstream
// that terminates early (Take, First, an external Unsubscribe) therefore cannot cancel an attempt on a source
// that keeps running: the source stays subscribed and the Subscribe call never returns.
package ro

import (
	"sync/atomic"
	"testing"
	"time"
)

func TestFindingBlockingSubscribeIgnoresDownstreamTermination(t *testing.T) {
	var live int32
	src := NewObservable(func(o Observer[int]) Teardown { // an endless asynchronous source
		atomic.AddInt32(&live, 1)
		stop := make(chan struct{})
		go func() {
			for i := 0; ; i++ {
				select {
				case <-stop:
					return
				case <-time.After(time.Millisecond):
					o.Next(i)
				}
			}
		}()
		return func() { atomic.AddInt32(&live, -1); close(stop) }
	})
	for name, op := range map[string]func(Observable[int]) Observable[int]{
		"RepeatWith": RepeatWith[int](2), "Retry": Retry[int](), "ConcatWith": ConcatWith[int](Empty[int]()),
	} {
		atomic.StoreInt32(&live, 0)
		returned := make(chan Subscription, 1)
		done := make(chan struct{})
		go func() {
			returned <- Pipe2(src, op, Take[int](1)).Subscribe(NewObserver(func(int) {}, func(error) {}, func() { close(done) }))
		}()
		<-done // Take(1) has completed the downstream
		select {
		case <-returned:
		case <-time.After(500 * time.Millisecond):
			t.Errorf("REPLAY-FAIL %s then Take(1): the downstream completed, yet Subscribe has not returned and the source still has %d live subscription(s)", name, atomic.LoadInt32(&live))
		}
	}
}
