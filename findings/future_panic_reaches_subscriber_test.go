// Finding (C07): Future - a panic of the factory is reported to the unhandled-error hook only; the subscriber, who could
// receive it, never gets an Error (nor any terminal notification).
package ro

import (
	"testing"
	"time"
)

func TestFindingFutureFactoryPanicReachesTheSubscriber(t *testing.T) {
	prev := OnUnhandledError
	OnUnhandledError = IgnoreOnUnhandledError
	defer func() { OnUnhandledError = prev }()
	got := make(chan error, 1)
	Future(func() (int, error) { panic("factory failed") }).Subscribe(NewObserver(func(int) {}, func(err error) { got <- err }, func() { got <- nil }))
	select {
	case err := <-got:
		if err == nil {
			t.Fatalf("REPLAY-FAIL Future: the factory panicked and the stream completed")
		}
	case <-time.After(time.Second):
		t.Fatalf("REPLAY-FAIL Future: the factory panicked; the subscriber received no Error (and no terminal notification at all)")
	}
}
