// Finding (C05): Zip / ZipAll completes its output as soon as the list of sources has been read, before any
// asynchronous source had a chance to emit: every tuple is lost.
package ro

import (
	"fmt"
	"testing"
)

func TestFindingZipAllCompletesBeforeItsSources(t *testing.T) {
	a, b := NewPublishSubject[int](), NewPublishSubject[int]()
	var got []string
	Zip[int](a.AsObservable(), b.AsObservable()).Subscribe(NewObserver(
		func(v []int) { got = append(got, fmt.Sprint(v)) },
		func(err error) { got = append(got, "E") },
		func() { got = append(got, "C") },
	))
	a.Next(1)
	b.Next(10)
	a.Complete()
	b.Complete()
	want := "[[1 10] C]"
	if fmt.Sprint(got) != want {
		t.Fatalf("REPLAY-FAIL Zip(a, b) with a.Next(1), b.Next(10), both complete: got %v, the definition gives %s", got, want)
	}
}
