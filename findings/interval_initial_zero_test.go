package ro

// Finding (C16), repaired in /repo by "fix: IntervalWithInitial(0, interval) ...": the subscribe function armed time.NewTicker(initial*2);
// with initial == 0 that panics, so the documented "first tick immediately" branch was dead and the subscriber got an Error.
// Found by the obligation IntervalWithInitial$1/ensures:the-ticker-is-armed-with-a-positive-period. Place in /repo (package ro).


import (
	"testing"
	"time"
)

func TestIWIZero(t *testing.T) {
	var got []int64
	var gotErr error
	sub := IntervalWithInitial(0, 20*time.Millisecond).Subscribe(NewObserver(func(v int64) { got = append(got, v) }, func(err error) { gotErr = err }, func() {}))
	time.Sleep(70 * time.Millisecond)
	sub.Unsubscribe()
	time.Sleep(10 * time.Millisecond)
	t.Logf("got=%v err=%v", got, gotErr)
	if gotErr != nil || len(got) < 3 {
		t.Fatalf("IntervalWithInitial(0, 20ms): got %v, err %v", got, gotErr)
	}
}
