// Demonstration of known finding P2/RaceWith (C03, C14): when a source wins the race while its own
// Subscribe call is still running (it emits synchronously), RaceWith neither stores nor releases
// that source's subscription, so a later Unsubscribe of the Race pipeline does not reach the winner.
// Run: cd /repo && go test -overlay <ov.json mapping /repo/zz_finding_test.go to this file> -vet=off -count=1 -run TestFindingRaceWinnerLeak .
package ro

import (
	"sync/atomic"
	"testing"
)

func TestFindingRaceWinnerLeak(t *testing.T) {
	var released int32
	// emits one value synchronously, then stays open (never terminates by itself)
	winner := NewObservable(func(o Observer[int]) Teardown {
		o.Next(1)
		return func() { atomic.AddInt32(&released, 1) }
	})
	silent := NewObservable(func(o Observer[int]) Teardown { return func() {} })
	sub := Race(winner, silent).Subscribe(NoopObserver[int]())
	sub.Unsubscribe()
	if atomic.LoadInt32(&released) != 1 {
		t.Fatalf("REPLAY-FAIL P2/RaceWith: after Unsubscribe the winning source was released %d times, want 1", atomic.LoadInt32(&released))
	}
}
