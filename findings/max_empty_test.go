// Demonstration of known finding Max/complete/emits (C04): Max invents a value on an empty source.
// Run: cd /repo && go test -overlay <ov.json mapping /repo/zz_finding_test.go to this file> -vet=off -count=1 -run TestFindingMaxEmpty .
package ro

import (
	"fmt"
	"testing"
)

func TestFindingMaxEmpty(t *testing.T) {
	values, err := Collect(Max[int]()(Empty[int]()))
	if err != nil || len(values) != 0 {
		t.Fatalf("REPLAY-FAIL Max/complete/emits: Max(Empty) delivered %v (err=%v); the empty source emitted no value (Min delivers %v)", values, err, fmt.Sprint(func() []int { v, _ := Collect(Min[int]()(Empty[int]())); return v }()))
	}
}
