// Demonstration of known finding "closed-after-next-panic" (properties C01, C07).
// Place: copy to /repo/zz_finding_observer_next_panic_test.go (or use go test -overlay), package ro.
// Run:   cd /repo && GOFLAGS= go test -vet=off -count=1 -run TestFindingObserverNextPanic .
// On the pinned tree it FAILS: after the panicking onNext reached onError, a later value and a
// completion are still delivered to the same observer (error AND completion, value after terminal).
package ro

import (
	"context"
	"fmt"
	"testing"
)

func TestFindingObserverNextPanic(t *testing.T) {
	var trace []string
	obs := NewObserverWithContext(
		func(ctx context.Context, v int) {
			trace = append(trace, fmt.Sprint("next:", v))
			if v == 1 {
				panic("boom")
			}
		},
		func(ctx context.Context, err error) { trace = append(trace, "error") },
		func(ctx context.Context) { trace = append(trace, "complete") },
	)
	obs.NextWithContext(context.Background(), 1)
	obs.NextWithContext(context.Background(), 2)
	obs.CompleteWithContext(context.Background())
	want := "[next:1 error]"
	if got := fmt.Sprint(trace); got != want {
		t.Fatalf("REPLAY-FAIL closed-after-next-panic: observer received %s, want %s (nothing after the Error)", got, want)
	}
}
