// Finding (C07): ShareWithConfig calls the user-supplied Connector while holding its mutex, without a deferred
// unlock: a panicking connector leaves the mutex locked (and the subscriber counted) - the shared observable is
// unusable afterwards (the next Subscribe blocks forever).
package ro

import (
	"testing"
	"time"
)

func TestFindingShareConnectorPanicLeavesTheLockHeld(t *testing.T) {
	calls := 0
	shared := ShareWithConfig(ShareConfig[int]{
		Connector: func() Subject[int] {
			calls++
			if calls == 1 {
				panic("connector failed")
			}
			return NewPublishSubject[int]()
		},
		ResetOnError: true, ResetOnComplete: true, ResetOnRefCountZero: true,
	})(Just(1, 2, 3))
	var firstErr error
	shared.Subscribe(NewObserver(func(int) {}, func(err error) { firstErr = err }, func() {}))
	if firstErr == nil {
		t.Fatalf("the panic of the connector did not reach the subscriber as an Error")
	}
	done := make(chan []int, 1)
	go func() {
		var got []int
		shared.Subscribe(NewObserver(func(v int) { got = append(got, v) }, func(error) {}, func() {}))
		done <- got
	}()
	select {
	case got := <-done:
		if len(got) != 3 {
			t.Fatalf("REPLAY-FAIL Share after a panicking connector: second subscriber received %v", got)
		}
	case <-time.After(2 * time.Second):
		t.Fatalf("REPLAY-FAIL Share: the connector panicked under the mutex; the next Subscribe blocks forever (lock left held)")
	}
}
