// Finding (C05): Zip — when one source completes while it still has queued values, the operator unsubscribes
// from ALL sources, so the queue can never be drained: the queued values are lost and the output never completes.
package ro

import (
	"fmt"
	"testing"

	"github.com/samber/lo"
)

func TestFindingZipFinishedSourceQueueIsDrained(t *testing.T) {
	b := NewPublishSubject[int]()
	var got []string
	Zip2(Just(1, 2), b.AsObservable()).Subscribe(NewObserver(
		func(v lo.Tuple2[int, int]) { got = append(got, fmt.Sprintf("(%d,%d)", v.A, v.B)) },
		func(err error) { got = append(got, "E") },
		func() { got = append(got, "C") },
	))
	// a has completed with 1 and 2 queued; b now delivers their partners
	b.Next(10)
	b.Next(20)
	want := "[(1,10) (2,20) C]"
	if fmt.Sprint(got) != want {
		t.Fatalf("REPLAY-FAIL Zip2(Just(1,2), b) then b.Next(10), b.Next(20): got %v, the definition gives %s (b still has %d observers)", got, want, b.CountObservers())
	}
}
