// Finding (C05 / C07 "never leaves a lock held"): ZipWithN's onUpdate completes the destination while holding the
// operator's mutex; completing the destination runs the teardown, which locks the same mutex. When a source completes
// (empty queue) while the last tuple is being delivered from another source's goroutine, the pipeline deadlocks.
package ro

import (
	"testing"
	"time"

	"github.com/samber/lo"
)

func TestFindingZipCompletesUnderItsOwnLock(t *testing.T) {
	a, b := NewPublishSubject[int](), NewPublishSubject[int]()
	inNext := make(chan struct{})
	release := make(chan struct{})
	Zip2(a.AsObservable(), b.AsObservable()).Subscribe(NewObserver(
		func(v lo.Tuple2[int, int]) { close(inNext); <-release },
		func(error) {},
		func() {},
	))
	a.Next(1)
	doneB := make(chan struct{})
	go func() { b.Next(10); close(doneB) }() // delivers the tuple (1,10); the observer holds it
	<-inNext
	doneA := make(chan struct{})
	go func() { a.Complete(); close(doneA) }() // a is finished and its queue is empty
	time.Sleep(50 * time.Millisecond)
	close(release)
	for name, ch := range map[string]chan struct{}{"b.Next": doneB, "a.Complete": doneA} {
		select {
		case <-ch:
		case <-time.After(2 * time.Second):
			t.Fatalf("REPLAY-FAIL Zip2: %s never returned: the output was completed under the operator's mutex and the teardown locks that mutex (deadlock)", name)
		}
	}
}
