package ro

import "testing"

// A reconnection that happens while the previous connection is being torn down (here from the source's own teardown; from
// another goroutine in general) finds the old subscription closed and connects the source to the current subject; the
// teardown of the old connection then replaces that subject: the running connection feeds a subject nobody can join.
func TestConnectableReconnectWhileDisconnecting(t *testing.T) {
	var dests []Observer[int]
	var c ConnectableObservable[int]
	reconnect := true
	c = NewConnectableObservable(func(d Observer[int]) Teardown {
		dests = append(dests, d)
		return func() {
			if reconnect {
				reconnect = false
				c.Connect()
			}
		}
	})
	c.Connect().Unsubscribe()
	if len(dests) != 2 {
		t.Fatalf("expected 2 connections, got %d", len(dests))
	}
	var got []int
	c.Subscribe(OnNext(func(v int) { got = append(got, v) }))
	dests[1].Next(42)
	if len(got) != 1 || got[0] != 42 {
		t.Fatalf("REPLAY-FAIL connectable: connected, but a subscriber that joined after the reconnection receives nothing from the running connection (got %v, want [42])", got)
	}
}
