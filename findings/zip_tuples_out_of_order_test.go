package ro

// Finding (C05), repaired in /repo by "fix: the Zip family delivered a tuple after releasing the lock it was taken under":
// onUpdate popped the heads of the queues under mu, released mu ("unlock before calling destination.Next to prevent long
// locks") and only then called destination.Next. onUpdate runs on the goroutine of whichever source just emitted, so a
// tuple taken by one goroutine could be overtaken by the next tuple (or by the completion of a drained source) taken and
// delivered by another: Zip2 over two subjects fed from two goroutines delivered {147879 147879} before {147878 147878}.
// Found by the obligations P11/ZipWith1..5/$1$1$1/delivery#1-keeps-the-order-of-the-takes (structural: no solver input);
// this test failed within the first round (0.2 s) before the repair.
// Place in /repo (package ro): go test -vet=off -count=1 -run TestZipOrderUnderConcurrency .
import (
	"sync"
	"testing"

	"github.com/samber/lo"
)

func TestZipOrderUnderConcurrency(t *testing.T) {
	const n = 300000
	bad := 0
	for round := 0; round < 20 && bad == 0; round++ {
		a := NewPublishSubject[int]()
		b := NewPublishSubject[int]()
		last := -1
		count := 0
		sub := Zip2[int, int](a, b).Subscribe(NewObserver(func(v lo.Tuple2[int, int]) {
			count++
			if v.A != v.B || v.A != last+1 {
				bad++
				if bad < 4 {
					t.Logf("round %d: tuple %v delivered after tuple #%d", round, v, last)
				}
			}
			last = v.A
		}, func(error) {}, func() {}))
		var wg sync.WaitGroup
		wg.Add(2)
		go func() {
			defer wg.Done()
			for i := 0; i < n; i++ {
				a.Next(i)
			}
		}()
		go func() {
			defer wg.Done()
			for i := 0; i < n; i++ {
				b.Next(i)
			}
		}()
		wg.Wait()
		sub.Unsubscribe()
		if count != n {
			t.Logf("round %d: %d tuples, want %d", round, count, n)
			bad++
		}
	}
	if bad > 0 {
		t.Fatalf("Zip2 delivered tuples out of order / lost tuples: %d", bad)
	}
}
