package ro

// Finding (C05 BufferWhen, C16 BufferWithTimeOrCount), repaired in /repo by "fix: BufferWhen and BufferWithTimeOrCount delivered a
// buffer after releasing the lock it was taken under": flush() took the buffer under mu, released mu and only then called
// destination.Next. flush runs in two concurrent contexts (boundary / ticker callbacks and source callbacks), so a flush
// that had already taken [1 2] could be overtaken by the flush + Complete of the source: the downstream saw Complete
// first and [1 2] was dropped (or, for BufferWithTimeOrCount, a younger buffer was delivered before an older one).
// Found by the obligations P11/BufferWhen/$1$1$1/delivery#1-keeps-the-order-of-the-takes and
// P11/BufferWithTimeOrCount/$1$1$1/delivery#1-keeps-the-order-of-the-takes (no input from the solver: the obligation is structural).
// The window is a few instructions wide: on the unrepaired code this test failed about once in 400000 trials (5 s).
// Place in /repo (package ro): go test -vet=off -count=1 -run TestBufferWhenTakeDeliverRace .
import (
	"sync"
	"sync/atomic"
	"testing"
)

// BufferWhen: a boundary tick and the completion of the source arrive at the same time from two goroutines.
// Sequential definition: every source value is delivered, in order, before Complete.
func TestBufferWhenTakeDeliverRace(t *testing.T) {
	const trials = 400000
	lostTrials := 0
	for i := 0; i < trials && lostTrials < 3; i++ {
		src := NewPublishSubject[int]()
		bd := NewPublishSubject[int]()
		var got []int
		sub := BufferWhen[int, int](bd)(src).Subscribe(NewObserver(func(vs []int) { got = append(got, vs...) }, func(error) {}, func() {}))
		src.Next(1)
		src.Next(2)
		var start int32
		var wg sync.WaitGroup
		wg.Add(2)
		go func() {
			defer wg.Done()
			for atomic.LoadInt32(&start) == 0 {
			}
			bd.Next(0)
		}()
		go func() {
			defer wg.Done()
			for atomic.LoadInt32(&start) == 0 {
			}
			src.Complete()
		}()
		atomic.StoreInt32(&start, 1)
		wg.Wait()
		sub.Unsubscribe()
		if len(got) != 2 || got[0] != 1 || got[1] != 2 {
			lostTrials++
			t.Logf("trial %d: source emitted 1, 2 then completed; a boundary tick raced with the completion; downstream got %v", i, got)
		}
	}
	if lostTrials > 0 {
		t.Fatalf("values lost in %d trials", lostTrials)
	}
}
