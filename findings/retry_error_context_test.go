package ro

// Finding (C09), repaired in /repo by "fix: RetryWithConfig delivered the error that ends the retries with the subscription
// context": the error callback stored the error but not its context, and the subscribe body later delivered it with
// subscriberCtx. Values attached to the notification upstream of Retry were lost on the final Error, while Catch, While,
// DoWhile and OnErrorResumeNextWith forward the notification's own context. Found by comparing the contract with the
// documentation (audit), then pinned by the obligation P1/RetryWithConfig/subscribe/destination.ErrorWithContext (an error
// stored by a callback travels with the context it arrived with).
// Place in /repo (package ro): go test -vet=off -count=1 -run TestRetryFinalErrorKeepsItsContext .
import (
	"context"
	"errors"
	"testing"
)

type rtKey struct{}

func TestRetryFinalErrorKeepsItsContext(t *testing.T) {
	boom := errors.New("boom")
	src := NewUnsafeObservableWithContext(func(ctx context.Context, d Observer[int]) Teardown {
		d.ErrorWithContext(context.WithValue(ctx, rtKey{}, "attached-upstream"), boom)
		return nil
	})
	var got any
	var gotErr error
	sub := RetryWithConfig[int](RetryConfig{MaxRetries: 1})(src).SubscribeWithContext(context.Background(),
		NewObserverWithContext(func(context.Context, int) {}, func(ctx context.Context, err error) { got, gotErr = ctx.Value(rtKey{}), err }, func(context.Context) {}))
	sub.Wait()
	if gotErr != boom || got != "attached-upstream" {
		t.Fatalf("the error that ends the retries arrived with context value %v (error %v); want the value attached upstream of Retry", got, gotErr)
	}
}
