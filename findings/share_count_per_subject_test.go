package ro

import (
	"sync/atomic"
	"testing"
)

// A subscriber of the execution that just completed is still leaving while the next execution starts: the subscriber
// count is one number for all executions, so the last subscriber of the new execution leaves at count 1, not 0, and the
// source stays subscribed with nobody listening.
func TestShareCountsSubscribersPerExecution(t *testing.T) {
	var live, subscriptions int32
	var first Observer[int]
	source := NewObservable(func(destination Observer[int]) Teardown {
		atomic.AddInt32(&live, 1)
		if atomic.AddInt32(&subscriptions, 1) == 1 {
			first = destination
		}
		return func() { atomic.AddInt32(&live, -1) }
	})
	shared := Share[int]()(source)
	shared.Subscribe(NewObserver(
		func(int) {},
		func(error) {},
		func() {
			// told about the completion of the first execution: a second subscriber comes and goes
			s2 := shared.Subscribe(NoopObserver[int]())
			s2.Unsubscribe()
		},
	))
	first.Complete()
	if n := atomic.LoadInt32(&subscriptions); n != 2 {
		t.Fatalf("expected a second execution, source subscribed %d times", n)
	}
	if n := atomic.LoadInt32(&live); n != 0 {
		t.Fatalf("REPLAY-FAIL Share: every subscriber has left but the source is still subscribed (live upstream subscriptions = %d)", n)
	}
}
