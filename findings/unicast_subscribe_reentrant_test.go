package ro

import (
	"testing"
	"time"
)

func TestUnicastSubscriberClosingDuringTheBacklog(t *testing.T) {
	s := NewUnicastSubject[int](UnicastSubjectUnlimitedBufferSize)
	s.Next(1)
	s.Next(2)
	var sub Subscriber[int]
	var got []int
	sub = NewSubscriber(NewObserver(func(v int) {
		got = append(got, v)
		sub.Unsubscribe() // one value is enough
	}, func(error) {}, func() {}))
	done := make(chan struct{})
	go func() {
		s.Subscribe(sub)
		close(done)
	}()
	select {
	case <-done:
		if len(got) != 1 || got[0] != 1 {
			t.Fatalf("got %v, want [1]", got)
		}
	case <-time.After(time.Second):
		t.Fatalf("REPLAY-FAIL unicast subject: a subscriber that unsubscribes while it receives the backlog makes Subscribe hang (the teardown added to the closed subscriber runs at once and takes the subject's mutex, which Subscribe still holds)")
	}
}
