package ro

// Finding (C05), repaired in /repo by "fix: the CombineLatest family stored a value, read the other sources' latest values and
// delivered the combination without a lock": the latest values are atomics; a source's Next stored its value, loaded the
// others and called destination.Next. Between the load and the delivery the other source's goroutine could store a newer
// value and deliver its combination first: the downstream got {2 391} and then {2 390} - a value of source B older than one
// already delivered, the output of no arrival order. Found by the obligations
// P11/CombineLatestWith1..4/$1$1$1/delivery#1-keeps-the-order-of-the-takes and P11/CombineLatestAll/... (structural: no solver
// input); this test failed at once (tens of thousands of stale deliveries per round) before the repair.
// Place in /repo (package ro): go test -vet=off -count=1 -run TestCombineLatestOrderUnderConcurrency .
import (
	"sync"
	"testing"

	"github.com/samber/lo"
)

func TestCombineLatestOrderUnderConcurrency(t *testing.T) {
	const n = 300000
	bad := 0
	for round := 0; round < 20 && bad == 0; round++ {
		a := NewPublishSubject[int]()
		b := NewPublishSubject[int]()
		lastA, lastB := -1, -1
		sub := CombineLatest2[int, int](a, b).Subscribe(NewObserver(func(v lo.Tuple2[int, int]) {
			if v.A < lastA || v.B < lastB {
				bad++
				if bad < 4 {
					t.Logf("round %d: %v delivered after {%d %d}", round, v, lastA, lastB)
				}
			}
			lastA, lastB = v.A, v.B
		}, func(error) {}, func() {}))
		var wg sync.WaitGroup
		wg.Add(2)
		go func() {
			defer wg.Done()
			for i := 0; i < n; i++ {
				a.Next(i)
			}
		}()
		go func() {
			defer wg.Done()
			for i := 0; i < n; i++ {
				b.Next(i)
			}
		}()
		wg.Wait()
		sub.Unsubscribe()
	}
	if bad > 0 {
		t.Fatalf("CombineLatest2 delivered a stale value of a source after a newer one: %d", bad)
	}
}
