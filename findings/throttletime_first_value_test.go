package ro

// Finding (C04, C16), repaired in /repo by "fix: ThrottleTime dropped every value until the process was older than the throttling
// window": ThrottleTime let a value through when lastAt + interval < now, with lastAt starting at 0 and now =
// xtime.NowNanoMonotonic(), which counts from process start. Until the process is older than the interval nothing passes:
// Just(1,2,3) | ThrottleTime(1h) delivered nothing instead of [1] ("emits a value from the source, then ignores subsequent
// source values for duration"). The earlier contract had copied the code's guard; restated from the documented meaning
// (ghost `seen`: the first value of a subscription always passes) the obligations ThrottleTime/next/emits and
// ThrottleTime/next/post#0 failed.
// Place in /repo (package ro): go test -vet=off -count=1 -run TestThrottleTimeFirstValue .
import (
	"testing"
	"time"
)

func TestThrottleTimeFirstValue(t *testing.T) {
	// the process is younger than the throttling window
	values, err := Collect(Pipe1(Just(1, 2, 3), ThrottleTime[int](time.Hour)))
	if err != nil || len(values) != 1 || values[0] != 1 {
		t.Fatalf("Just(1,2,3) | ThrottleTime(1h): got %v, %v; want [1]: the first value opens the first window", values, err)
	}
}
