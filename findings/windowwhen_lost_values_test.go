package ro

// Finding (C05; also seen through the native rate limiter, C20), repaired in /repo by "fix: WindowWhen used the current window
// after releasing the lock it was read under": the source's Next read `window` under mu, released mu and then sent the value
// to that window; a boundary tick on another goroutine swapped and completed the window in between, so the value went to a
// completed window and was lost (183 of 200000 in the first round). Likewise a tick racing with the completion of the source
// delivered a new window after the last one had been closed: that window was never completed (a downstream MergeAll hangs).
// Found by the obligations P11/WindowWhen/$1$1$2/use#1-of-a-shared-handle-is-ordered-with-its-replacement and
// P11/WindowWhen/$1$1$1/use#1-... (structural: no solver input).
// Place in /repo (package ro): go test -vet=off -count=1 -run TestWindowWhenLosesNothingUnderConcurrency .
import (
	"sync"
	"sync/atomic"
	"testing"
)

func TestWindowWhenLosesNothingUnderConcurrency(t *testing.T) {
	const n = 200000
	for round := 0; round < 10; round++ {
		src := NewPublishSubject[int]()
		bd := NewPublishSubject[int]()
		var got int64
		var windows, completed int64
		sub := WindowWhen[int, int](bd)(src).Subscribe(NewObserver(func(w Observable[int]) {
			atomic.AddInt64(&windows, 1)
			w.Subscribe(NewObserver(func(int) { atomic.AddInt64(&got, 1) }, func(error) {}, func() { atomic.AddInt64(&completed, 1) }))
		}, func(error) {}, func() {}))
		var wg sync.WaitGroup
		wg.Add(2)
		stop := int32(0)
		go func() {
			defer wg.Done()
			for i := 0; i < n; i++ {
				src.Next(i)
			}
			atomic.StoreInt32(&stop, 1)
		}()
		go func() {
			defer wg.Done()
			for atomic.LoadInt32(&stop) == 0 {
				bd.Next(0)
			}
		}()
		wg.Wait()
		src.Complete()
		sub.Unsubscribe()
		if g := atomic.LoadInt64(&got); g != n {
			t.Fatalf("round %d: the source emitted %d values while the boundary ticked from another goroutine; the windows delivered %d (%d lost); windows=%d completed=%d", round, n, g, n-g, windows, completed)
		}
	}
}
