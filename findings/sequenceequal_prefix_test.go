// Finding (C04, known, not repaired: pinned by TestOperatorConditionalSequenceEqual, which asserts true for Empty against
// Just(1,2,3)): SequenceEqual zips the two sequences and answers true when the zip ends - at the SHORTER sequence - so a
// proper prefix compares equal, although the operator "determines whether two observable sequences are equal" and the
// documentation (docs/data/core-sequenceequal.md, "With different length sequences") says Just(1,2,3) against Just(1,2)
// gives false. Obligation: SequenceEqual$1$1/ensures:sequences-of-different-length-are-not-equal.
// Place in /repo (package ro): go test -vet=off -count=1 -run TestFindingSequenceEqualPrefix .
package ro

import "testing"

func TestFindingSequenceEqualPrefix(t *testing.T) {
	values, err := Collect(Pipe1(Just(1, 2, 3), SequenceEqual(Just(1, 2))))
	if err != nil || len(values) != 1 || values[0] {
		t.Errorf("REPLAY-FAIL Just(1,2,3) | SequenceEqual(Just(1,2)) = %v (err %v); sequences of different lengths are not equal", values, err)
	}
}
