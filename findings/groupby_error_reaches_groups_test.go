// Finding (C05): GroupBy — when the source fails, the groups that are open are completed instead of failed: the
// outer Error runs the operator's teardown (which completes every group) before the error callback reaches them.
package ro

import (
	"errors"
	"fmt"
	"testing"
)

func TestFindingGroupBySourceErrorReachesTheGroups(t *testing.T) {
	src := NewPublishSubject[int]()
	var got []string
	GroupBy(func(v int) int { return v % 2 })(src.AsObservable()).Subscribe(NewObserver(
		func(g Observable[int]) {
			g.Subscribe(NewObserver(
				func(v int) { got = append(got, fmt.Sprintf("g:N%d", v)) },
				func(err error) { got = append(got, "g:E") },
				func() { got = append(got, "g:C") },
			))
		},
		func(err error) { got = append(got, "outer:E") },
		func() { got = append(got, "outer:C") },
	))
	src.Next(1)
	src.Error(errors.New("boom"))
	for _, e := range got {
		if e == "g:C" {
			t.Fatalf("REPLAY-FAIL GroupBy: the source failed, yet an open group was completed instead of failed: %v", got)
		}
	}
	found := false
	for _, e := range got {
		if e == "g:E" {
			found = true
		}
	}
	if !found {
		t.Fatalf("REPLAY-FAIL GroupBy: the source failed, the open group never saw the error: %v", got)
	}
}
