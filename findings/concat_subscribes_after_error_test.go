// Finding (C15 / C05): Concat(a, b) subscribes to b although a ended with an error.
// Run: mapped to /repo/zz_finding_test.go by `go test -overlay` (see findings/README in DESIGN.md section on findings).
package ro

import (
	"errors"
	"testing"
)

func TestFindingConcatSubscribesNextSourceAfterError(t *testing.T) {
	subscribedB := 0
	a := Throw[int](errors.New("boom"))
	b := NewObservable(func(o Observer[int]) Teardown {
		subscribedB++
		o.Next(42)
		o.Complete()
		return nil
	})
	var got []int
	var gotErr error
	Concat(a, b).Subscribe(NewObserver(func(v int) { got = append(got, v) }, func(err error) { gotErr = err }, func() {}))
	if gotErr == nil || len(got) != 0 {
		t.Fatalf("output: values %v err %v", got, gotErr)
	}
	if subscribedB != 0 {
		t.Fatalf("REPLAY-FAIL Concat(a, b): a ended with an error, yet b was subscribed %d time(s)", subscribedB)
	}
}
