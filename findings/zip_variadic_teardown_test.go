package ro

import (
	"testing"
	"time"
)

// The downstream ends while it receives a tuple (Take(1) over hot sources): the teardown of the variadic Zip forgets its
// queues and flags (completed = nil, values = nil) while onUpdate is still inside destination.Next; onUpdate then indexes
// the nil slices with the state lock held: the panic is turned into an Error by the source's subscriber, whose handler
// takes the same lock.
func TestZipVariadicDownstreamEndsDuringATuple(t *testing.T) {
	a, b := NewPublishSubject[int](), NewPublishSubject[int]()
	var got [][]int
	var gotErr error
	completed := false
	Pipe1(Zip[int](a, b), Take[[]int](1)).Subscribe(NewObserver(
		func(v []int) { got = append(got, v) },
		func(err error) { gotErr = err },
		func() { completed = true },
	))
	done := make(chan struct{})
	go func() {
		defer close(done)
		a.Next(1)
		b.Next(3)
	}()
	select {
	case <-done:
		if gotErr != nil || !completed || len(got) != 1 || got[0][0] != 1 || got[0][1] != 3 {
			t.Fatalf("REPLAY-FAIL Zip(a, b) | Take(1): got %v completed=%v err %v, want [[1 3]] and completion", got, completed, gotErr)
		}
		if a.HasObserver() || b.HasObserver() {
			t.Fatalf("REPLAY-FAIL Zip(a, b) | Take(1): a source is still subscribed after the downstream ended")
		}
	case <-time.After(2 * time.Second):
		t.Fatalf("REPLAY-FAIL Zip(a, b) | Take(1): b.Next never returns (onUpdate panicked on the forgotten queues with the state lock held, and the error path takes that lock)")
	}
}
