#!/usr/bin/env python3
"""mut.py PROPS 'file:::old:::new' ... : apply textual replacements to a scratch worktree of /repo, check that it still builds,
run the named checks (comma separated) against it and print the failed obligations. A selftest helper; the worktree is removed."""
import os, subprocess, sys, tempfile, shutil
ROOT = os.path.dirname(os.path.dirname(os.path.abspath(__file__)))
props = sys.argv[1].split(",")
wt = tempfile.mkdtemp(prefix="mutwt-"); os.rmdir(wt)
out = tempfile.mkdtemp(prefix="mutout-")
subprocess.run(["git", "-C", "/repo", "worktree", "add", "--detach", wt, "HEAD"], capture_output=True, check=True)
try:
    # carry uncommitted contract edits of /repo over to the scratch copy
    d = subprocess.run(["git", "-C", "/repo", "diff", "HEAD"], capture_output=True, text=True).stdout
    if d.strip():
        subprocess.run(["git", "-C", wt, "apply"], input=d, text=True, check=True)
    for spec in sys.argv[2:]:
        f, old, new = spec.split(":::")
        p = os.path.join(wt, f)
        s = open(p).read()
        if old not in s:
            print("pattern not found in", f, ":", old); sys.exit(2)
        open(p, "w").write(s.replace(old, new, 1))
    dirs = sorted({os.path.dirname(spec.split(":::")[0]) or "." for spec in sys.argv[2:]})
    for dd in dirs:
        r = subprocess.run(["go", "build", "."], cwd=os.path.join(wt, dd), capture_output=True, text=True, env=dict(os.environ, GOFLAGS=""))
        if r.returncode != 0:
            print("DOES NOT BUILD:", r.stderr[-800:]); sys.exit(2)
    for p in props:
        r = subprocess.run([os.path.join(ROOT, "check"), p], capture_output=True, text=True, env=dict(os.environ, VERIF_REPO=wt, VERIF_OUT=out))
        lines = [l for l in r.stdout.splitlines() if l.startswith("VIOLATION") or "failed obligation" in l or l.startswith("UNDECIDED")]
        print(p, "exit", r.returncode)
        for l in lines[:12]:
            print("   ", l[:260])
finally:
    subprocess.run(["git", "-C", "/repo", "worktree", "remove", "--force", wt], capture_output=True)
    shutil.rmtree(wt, ignore_errors=True); shutil.rmtree(out, ignore_errors=True)
    subprocess.run(["git", "-C", "/repo", "worktree", "prune"])
