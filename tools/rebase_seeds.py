#!/usr/bin/env python3
"""rebase_seeds.py [ids...] : seeded patches were written against the tree of their day; repairs made to /repo since then
move the lines they touch. For each /verif/seeded/<id> whose patch (patch.rebased.diff if present, else patch.diff) no longer
applies to /repo's HEAD, try a three-way application (the pre-image blobs are in /repo's object store) in a scratch
worktree and, when it merges without conflict, write the result as patch.rebased.diff. Conflicts are reported for a
manual rebase. Nothing is written to /repo."""
import os, subprocess, sys, tempfile, shutil
ROOT = os.path.dirname(os.path.dirname(os.path.abspath(__file__)))
SUB = os.environ.get("SEED_DIR", "seeded")
def sh(cmd, **kw):
    return subprocess.run(cmd, capture_output=True, text=True, **kw)
ids = sys.argv[1:] or sorted(d for d in os.listdir(os.path.join(ROOT, SUB)) if os.path.isdir(os.path.join(ROOT, SUB, d)))
wt = tempfile.mkdtemp(prefix="rebase-wt-")
os.rmdir(wt)
r = sh(["git", "-C", "/repo", "worktree", "add", "--detach", wt, "HEAD"])
assert r.returncode == 0, r.stderr
try:
    for sid in ids:
        sd = os.path.join(ROOT, SUB, sid)
        cur = os.path.join(sd, "patch.rebased.diff")
        if not os.path.exists(cur):
            cur = os.path.join(sd, "patch.diff")
        if sh(["git", "-C", wt, "apply", "--check", cur]).returncode == 0:
            continue
        ok = False
        for cand in [os.path.join(sd, "patch.diff"), cur]:
            sh(["git", "-C", wt, "checkout", "-q", "--", "."]); sh(["git", "-C", wt, "clean", "-fdq"]); sh(["git", "-C", wt, "reset", "-q", "--hard", "HEAD"])
            r = sh(["git", "-C", wt, "apply", "--3way", cand])
            if r.returncode == 0 and "conflict" not in (r.stderr + r.stdout).lower():
                d = sh(["git", "-C", wt, "diff", "HEAD"]).stdout
                if d.strip():
                    open(os.path.join(sd, "patch.rebased.diff"), "w").write(d)
                    print(sid, "rebased (three-way) from", os.path.basename(cand))
                    ok = True
                    break
        if not ok:
            print(sid, "CONFLICT: needs a manual rebase")
finally:
    sh(["git", "-C", "/repo", "worktree", "remove", "--force", wt]); shutil.rmtree(wt, ignore_errors=True); sh(["git", "-C", "/repo", "worktree", "prune"])
