#!/usr/bin/env python3
"""Writes seeded/<id>/meta.json from the sub-agent's description (agent_meta.json), my confirmation run (confirm.json,
tools/confirm_seeded.py) and the detection run (detect.json, tools/seeded_matrix.py)."""
import glob, json, os
ROOT = os.path.dirname(os.path.dirname(os.path.abspath(__file__)))
for d in sorted(glob.glob(os.path.join(ROOT, "seeded", "C*-*"))):
    sid = os.path.basename(d)
    def load(n):
        p = os.path.join(d, n)
        try:
            return json.load(open(p))
        except Exception:
            return {}
    a, c, t = load("agent_meta.json"), load("confirm.json"), load("detect.json")
    patch = "patch.rebased.diff" if os.path.exists(os.path.join(d, "patch.rebased.diff")) else "patch.diff"
    meta = {
        "id": sid,
        "property": sid.split("-")[0],
        "breaks": a.get("summary", ""),
        "needs": a.get("needs", ""),
        "files": a.get("files", []),
        "patch": patch,
        "patch_note": "patch.rebased.diff is the same change re-applied after later fix: commits moved the context" if patch != "patch.diff" else "",
        "demonstration": "demo_test.go.txt (copy into the package directory of the patched file as a _test.go file)",
        "confirmed_by_me": {
            "how": "tools/confirm_seeded.py in a scratch worktree of /repo HEAD: git apply; go build; demo with and without the patch; full test suite of the touched modules with the patch",
            "applies": c.get("applies"), "builds": c.get("builds"), "demo_without_patch": c.get("demo_without"), "demo_with_patch": c.get("demo_with"),
            "suite_green_with_patch": c.get("suite_ok"), "suite_failures_other_than_baseline": {k: v for k, v in (c.get("suite_failures") or {}).items() if v},
        },
        "checks_run": "tools/seeded_matrix.py: patch applied to a scratch worktree, all 20 ./check Cxx (quick tier) with VERIF_REPO pointing at it",
        "detected_by": t.get("detected_by", []),
        "target_detected": t.get("target_detected"),
        "first_failed_obligations": {p: v.get("failed_obligations", [])[:3] for p, v in (t.get("checks") or {}).items() if v.get("exit") == 1},
    }
    json.dump(meta, open(os.path.join(d, "meta.json"), "w"), indent=1)
print("ok")
