#!/usr/bin/env python3
"""mkbinds.py: (re)writes the `//@   binds <names>` line of every func block of the contract files in /repo: the parameters and
captured variables of the bound function that the block's clauses mention. rovc refuses to evaluate a block whose `binds`
names no longer exist (reported as "does not bind", i.e. UNDECIDED, never as a violation). Run after writing or editing
func contracts; commit the result in /repo as a `verif:` commit."""
import json, os, re, subprocess, sys
ROOT = os.path.dirname(os.path.dirname(os.path.abspath(__file__)))
cfg = json.load(open(os.path.join(ROOT, "checks.json")))
pkgs = sorted({p for v in cfg["properties"].values() for p in v["packages"]})
sigs = json.loads(subprocess.run([os.environ.get("ROVC_BIN") or os.path.join(ROOT, "bin", "rovc"), "sigs", ",".join(pkgs)], capture_output=True, text=True, check=True).stdout)
idre = re.compile(r"[A-Za-z_][A-Za-z0-9_]*")
for path, blocks in sigs.items():
    lines = open(path).read().split("\n")
    out, i, changed = [], 0, 0
    while i < len(lines):
        mo = re.match(r"^//@ operator (\S+)\s*$", lines[i])
        if mo and ("operator " + mo.group(1) + "#scope") in blocks:
            # operator blocks only get the scope fingerprint (the identifiers that existed when the contract was written)
            out.append(lines[i])
            i += 1
            body = []
            while i < len(lines) and lines[i].startswith("//@   "):
                body.append(lines[i])
                i += 1
            body = [l for l in body if not l.startswith("//@   scope ")]
            k = next((j + 1 for j, l in enumerate(body) if l.startswith("//@   props")), 0)
            body.insert(k, "//@   scope " + " ".join(blocks["operator " + mo.group(1) + "#scope"]))
            out.extend(body)
            continue
        m = re.match(r"^//@ func (\S+)\s*$", lines[i])
        out.append(lines[i])
        i += 1
        if not m or m.group(1) not in blocks:
            continue
        body = []
        while i < len(lines) and lines[i].startswith("//@   "):
            body.append(lines[i])
            i += 1
        body = [l for l in body if not l.startswith("//@   binds ") and not l.startswith("//@   calls ") and not l.startswith("//@   params ") and not l.startswith("//@   scope ")]
        text = " ".join(l for l in body if not re.match(r"^//@   (note|props)\b", l))
        used = set(idre.findall(text))
        names = []
        for n in (blocks[m.group(1)] or []):
            if n in used and n not in names and n != "_":
                names.append(n)
        if names:
            # after the props line when there is one, else first
            k = next((j + 1 for j, l in enumerate(body) if l.startswith("//@   props")), 0)
            body.insert(k, "//@   binds " + " ".join(names))
            calls = blocks.get(m.group(1) + "#calls")
            if calls:
                # what the closure calls: a second fingerprint, used when a `binds` name is no longer captured
                body.insert(k + 1, "//@   calls " + " ".join(calls))
                body.insert(k + 2, "//@   params " + " ".join(blocks.get(m.group(1) + "#params") or ["-"]))
            changed += 1
        sc = blocks.get(m.group(1) + "#scope")
        if sc and names:
            k = next((j + 1 for j, l in enumerate(body) if l.startswith("//@   params ") or l.startswith("//@   binds ")), 0)
            k = max([j + 1 for j, l in enumerate(body) if l.startswith("//@   params ") or l.startswith("//@   binds ") or l.startswith("//@   calls ")] or [0])
            body.insert(k, "//@   scope " + " ".join(sc))
        out.extend(body)
    new = "\n".join(out)
    if new != "\n".join(lines):
        open(path, "w").write(new)
    print(os.path.relpath(path, "/repo"), changed, "blocks")
