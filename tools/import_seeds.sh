#!/bin/sh
# import_seeds.sh <outdir> : copy finished seeded changes from a sub-agent output directory into /verif/seeded/<id>/
for d in "$1"/C??-?; do
  [ -f "$d/patch.diff" ] && [ -f "$d/demo_test.go" ] && [ -f "$d/meta.json" ] || continue
  id=$(basename "$d"); t=/verif/seeded/$id
  [ -d "$t" ] && continue
  mkdir -p "$t"; cp "$d/patch.diff" "$t/patch.diff"; cp "$d/demo_test.go" "$t/demo_test.go.txt"; cp "$d/meta.json" "$t/agent_meta.json"
  echo imported $id
done
