#!/bin/sh
# runall.sh [tier]: every claimed check on the current tree, 4 at a time; prints the last line of each
cd /verif
for i in $(seq -w 1 20); do echo C$i; done | xargs -P 4 -I{} sh -c './check {} --tier '"${1:-quick}"' > /tmp/runall-{}.log 2>&1; echo "exit=$? $(tail -1 /tmp/runall-{}.log)"' | sort -k2
grep -l "VIOLATION\|UNDECIDED\|SPEC-MISMATCH" /tmp/runall-C*.log 2>/dev/null
