#!/usr/bin/env python3
"""Regenerates /verif/MANIFEST.json from checks.json (claimed properties) and properties.jsonl."""
import json, os
ROOT = os.path.dirname(os.path.dirname(os.path.abspath(__file__)))
props = [json.loads(l) for l in open(os.path.join(ROOT, "properties.jsonl")) if l.strip()]
cfg = json.load(open(os.path.join(ROOT, "checks.json")))
import subprocess
hooks = subprocess.run(["git", "-C", "/repo", "log", "--reverse", "--format=%H", "--grep=^verif:"], capture_output=True, text=True).stdout.split()
m = {
    "version": 1,
    "setup_cmd": "./setup.sh",
    "hooks": {
        "guard": "verif",
        "enable": "rovc loads /repo with `-tags verif`; the tag only adds comment-only contract files verif_contracts*.go (package clause and //@ comments, no code); no instrumentation hook exists",
        "baseline_off_cmd": "for m in $(cat /w/out/gomods.txt); do MF=$(cd /repo/$m && . /w/out/goenv.sh && gomodflag); (cd /repo/$m && go test $MF -json -vet=off -count=1 -timeout 25m ./...); done",
        "source_commits": hooks,
        "add_only": True,
    },
    "engines": [{
        "name": "rovc",
        "path": "rovc/",
        "serves_properties": sorted(cfg["properties"].keys()),
        "kind_free_text": "contract-based deductive verifier for Go written for this task: verification conditions by symbolic execution (forward WP) over go/ssa of the real functions in /repo; contracts are comment-only verif_contracts*.go files in /repo behind build tag verif; obligations discharged by z3 5.1.0 / cvc5 1.0.3 / z3 4.8.12; driver ./check",
    }],
    "checks": [],
    "notes": cfg.get("notes", ""),
    "not_applicable": [],
}
for p in props:
    pid = p["id"]
    pc = cfg["properties"].get(pid)
    if pc is None or not pc.get("claimed", True):
        reason = (cfg.get("not_applicable", {}) or {}).get(pid) or "not claimed yet: its contracts are not written / do not all discharge on the pristine tree (build in progress, DESIGN.md section 9)"
        m["not_applicable"].append({"property_id": pid, "reason": reason})
        continue
    m["checks"].append({
        "property_id": pid,
        "quick_cmd": "./check %s" % pid,
        "thorough_cmd": "./check %s --tier thorough" % pid,
        "evidence_file": "evidence/%s.json" % pid,
        "replay_cmd_template": "./check %s --replay {path}" % pid,
        "engine": "rovc",
        "level_claimed": {"category": pc.get("level", "proof"), "text": pc["level_text"], "design_ref": pc.get("design_ref", "DESIGN.md section 4 (%s)" % pid)},
        "level_note": pc["level_note"],
        "technique": pc.get("technique", "contract-based deductive verification: WP over go/ssa + SMT (z3/cvc5)"),
    })
json.dump(m, open(os.path.join(ROOT, "MANIFEST.json"), "w"), indent=1)
print("claimed:", [c["property_id"] for c in m["checks"]])
