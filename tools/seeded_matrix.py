#!/usr/bin/env python3
"""seeded_matrix.py [ids...] : run every property check against every seeded change.

For each /verif/seeded/<id>/ the patch (patch.rebased.diff when present, else patch.diff) is applied to a
scratch worktree of /repo's HEAD outside /repo and /verif, all claimed checks run against it (VERIF_REPO,
with evidence and replays redirected to a scratch directory so that /verif/evidence keeps describing the
unchanged tree), and the outcome is written to /verif/seeded/<id>/detect.json. The worktree is removed.
"""
import concurrent.futures as cf
import json
import os
import re
import shutil
import subprocess
import sys
import tempfile

ROOT = os.path.dirname(os.path.dirname(os.path.abspath(__file__)))
REPO = "/repo"


def sh(cmd, **kw):
    return subprocess.run(cmd, capture_output=True, text=True, **kw)


SUB = os.environ.get("SEED_DIR", "seeded")  # "benign": behaviour-preserving refactorings (every exit 1 there is a false alarm)


def one(sid, props):
    sd = os.path.join(ROOT, SUB, sid)
    pfile = os.path.join(sd, "patch.rebased.diff")
    if not os.path.exists(pfile):
        pfile = os.path.join(sd, "patch.diff")
    wt = tempfile.mkdtemp(prefix="mxwt-%s-" % sid)
    out = tempfile.mkdtemp(prefix="mxout-%s-" % sid)
    rec = {"seed": sid, "patch": os.path.basename(pfile), "target": sid.split("-")[0], "checks": {}}
    try:
        os.rmdir(wt)
        r = sh(["git", "-C", REPO, "worktree", "add", "--detach", wt, "HEAD"])
        if r.returncode != 0:
            rec["error"] = "worktree: " + r.stderr[-500:]
            return rec
        r = sh(["git", "-C", wt, "apply", pfile])
        if r.returncode != 0:
            rec["error"] = "patch does not apply: " + r.stderr[-500:]
            return rec
        env = dict(os.environ, VERIF_REPO=wt, VERIF_OUT=out, VERIF_TIER="quick")

        def run(pid):
            r = sh([os.path.join(ROOT, "check"), pid], env=env)
            viol = [l for l in r.stdout.splitlines() if l.startswith("VIOLATION")]
            failed = [l.strip()[len("failed obligation: "):] for l in r.stdout.splitlines() if l.strip().startswith("failed obligation:")]
            und = [l for l in r.stdout.splitlines() if l.startswith("UNDECIDED")]
            replayed = sum(1 for l in viol if not l.endswith("no-failing-input-found"))
            return pid, {"exit": r.returncode, "violations": len(viol), "replayed_on_real_code": replayed, "failed_obligations": failed[:12], "undecided": [u[:300] for u in und[:6]]}

        with cf.ThreadPoolExecutor(max_workers=4) as ex:
            for pid, res in ex.map(run, props):
                rec["checks"][pid] = res
        rec["detected_by"] = sorted(p for p, v in rec["checks"].items() if v["exit"] == 1)
        rec["target_detected"] = rec["target"] in rec["detected_by"]
        return rec
    finally:
        sh(["git", "-C", REPO, "worktree", "remove", "--force", wt])
        shutil.rmtree(wt, ignore_errors=True)
        shutil.rmtree(out, ignore_errors=True)
        sh(["git", "-C", REPO, "worktree", "prune"])


def main():
    ids = sys.argv[1:] or sorted(d for d in os.listdir(os.path.join(ROOT, SUB)) if os.path.isdir(os.path.join(ROOT, SUB, d)))
    cfg = json.load(open(os.path.join(ROOT, "checks.json")))
    props = sorted(p for p, v in cfg["properties"].items() if v.get("claimed", True))
    with cf.ThreadPoolExecutor(max_workers=3) as ex:
        for rec in ex.map(lambda s: one(s, props), ids):
            # keep the per-check detail small: only the checks that reacted
            slim = dict(rec)
            slim["checks"] = {p: v for p, v in rec.get("checks", {}).items() if v["exit"] != 0 or v["undecided"]}
            with open(os.path.join(ROOT, SUB, rec["seed"], "detect.json"), "w") as f:
                json.dump(slim, f, indent=1)
            print("%-6s target=%s detected_by=%s%s" % (rec["seed"], rec["target"], ",".join(rec.get("detected_by", [])) or "-", "  ERROR " + rec["error"] if rec.get("error") else ""), flush=True)


if __name__ == "__main__":
    main()
