#!/usr/bin/env python3
"""Confirms seeded changes in scratch worktrees: patch applies, builds, existing suite passes, demo fails with /
passes without. Writes seeded/<id>/confirm.json. Usage: confirm_seeded.py [ids...]"""
import json, os, subprocess, sys, shutil, re, tempfile
ROOT = os.path.dirname(os.path.dirname(os.path.abspath(__file__)))
REPO = "/repo"

def sh(cmd, cwd, timeout=1500, env=None):
    e = dict(os.environ); e["GOFLAGS"] = ""
    if env: e.update(env)
    try:
        r = subprocess.run(cmd, cwd=cwd, shell=True, capture_output=True, text=True, timeout=timeout, env=e)
        return r.returncode, (r.stdout + r.stderr)
    except subprocess.TimeoutExpired:
        return 124, "timeout"

def module_of(patch):
    files = re.findall(r"^\+\+\+ b/(\S+)", patch, re.M)
    mods = set()
    for f in files:
        d = os.path.dirname(f)
        while d and not os.path.exists(os.path.join(REPO, d, "go.mod")):
            d = os.path.dirname(d)
        mods.add(d or ".")
    return sorted(mods), files

def confirm(sid):
    sd = os.path.join(ROOT, "seeded", sid)
    pfile = os.path.join(sd, "patch.rebased.diff") if os.path.exists(os.path.join(sd, "patch.rebased.diff")) else os.path.join(sd, "patch.diff")
    patch = open(pfile).read()
    demo = open(os.path.join(sd, "demo_test.go.txt")).read()
    mods, files = module_of(patch)
    wt = tempfile.mkdtemp(prefix="seedwt-")
    os.rmdir(wt)
    res = {"id": sid, "modules": mods, "files": files}
    try:
        rc, out = sh("git -C %s worktree add -q --detach %s HEAD" % (REPO, wt), REPO)
        if rc: res["error"] = out; return res
        rc, out = sh("git apply --check %s" % pfile, wt)
        res["applies"] = rc == 0
        if rc:
            res["apply_error"] = out[-500:]
            return res
        # demo placement: package clause decides the directory
        pkgdir = os.path.dirname(files[0]) or "."
        for m in re.finditer(r"(ee/plugins/[\w\-]+|plugins/[\w/\-]+)", demo[:1500]):
            cand = m.group(1).rstrip("/")
            while cand and not os.path.isdir(os.path.join(wt, cand)):
                cand = os.path.dirname(cand)
            if cand and os.path.isdir(os.path.join(wt, cand)) and any(f.endswith(".go") for f in os.listdir(os.path.join(wt, cand))):
                pkgdir = cand
                break
        mpk = re.search(r"^package (\w+)", demo, re.M)
        if mpk and mpk.group(1) == "ro":
            pkgdir = "."  # the root package, whatever directories the demo's comments mention
        demo_path = os.path.join(wt, pkgdir, "zz_seed_demo_test.go")
        run = re.findall(r"func (Test\w+)\(", demo)
        pat = "|".join(run) if run else "."
        race = "-race " if "-race" in demo or sid.startswith("C13") else ""
        trim = "" if "introspection" in patch or "prometheus" in " ".join(files) or "prometheus" in pkgdir else "-trimpath"  # the Prometheus plugin reads its callers' source positions: they must stay absolute
        # baseline: demo passes without the change
        shutil.copy(os.path.join(sd, "demo_test.go.txt"), demo_path)
        rc, out = sh("go test %s %s-vet=off -count=1 -timeout 300s -run '%s' ." % (trim, race, pat), os.path.join(wt, pkgdir), timeout=400)
        res["demo_without"] = "pass" if rc == 0 else "FAIL"
        res["demo_without_tail"] = out[-300:]
        os.remove(demo_path)
        sh("git apply %s" % pfile, wt)
        rc, out = sh("go build -trimpath ./...", wt)
        res["builds"] = rc == 0
        if rc:
            res["build_error"] = out[-500:]
            return res
        shutil.copy(os.path.join(sd, "demo_test.go.txt"), demo_path)
        rc, out = sh("go test %s %s-vet=off -count=1 -timeout 300s -run '%s' ." % (trim, race, pat), os.path.join(wt, pkgdir), timeout=400)
        res["demo_with"] = "pass" if rc == 0 else "FAIL"
        res["demo_with_tail"] = out[-400:]
        os.remove(demo_path)
        # the existing suite (root module + touched modules)
        suite = {}
        for mod in sorted(set(["."] + mods)):
            rc, out = sh("go test -trimpath -vet=off -count=1 -timeout 25m ./... 2>&1 | grep -E '^(--- FAIL|FAIL|ok|panic:)' | head -40", os.path.join(wt, mod), timeout=1600)
            fails = [l for l in out.splitlines() if l.startswith("--- FAIL")]
            suite[mod] = fails
        res["suite_failures"] = suite
        known = {"--- FAIL: ExampleFuture_ok"}
        res["suite_ok"] = all(all(any(f.startswith(k) for k in known) or "ozzo" in mod or "proc" in mod for f in fl) for mod, fl in suite.items())
    finally:
        sh("git -C %s worktree remove --force %s" % (REPO, wt), REPO)
        shutil.rmtree(wt, ignore_errors=True)
    return res

if __name__ == "__main__":
    ids = [a for a in sys.argv[1:] if not a.startswith("--")] or sorted(os.listdir(os.path.join(ROOT, "seeded")))
    todo = []
    for sid in ids:
        if not os.path.isdir(os.path.join(ROOT, "seeded", sid)): continue
        cj = os.path.join(ROOT, "seeded", sid, "confirm.json")
        if os.path.exists(cj) and "--force" not in sys.argv:
            try:
                old = json.load(open(cj))
                if old.get("suite_ok") and old.get("demo_with") == "FAIL" and old.get("demo_without") == "pass":
                    continue
            except Exception:
                pass
        todo.append(sid)
    import concurrent.futures as cf
    with cf.ThreadPoolExecutor(max_workers=3) as ex:
        for sid, r in zip(todo, ex.map(confirm, todo)):
            json.dump(r, open(os.path.join(ROOT, "seeded", sid, "confirm.json"), "w"), indent=1)
            print(sid, {k: r.get(k) for k in ("applies", "builds", "demo_without", "demo_with", "suite_ok")}, flush=True)
