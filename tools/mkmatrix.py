#!/usr/bin/env python3
"""Regenerates the table 'which checks catch which seeded change' in DESIGN.md (between the MATRIX markers)
and seeded/MATRIX.md from seeded/*/detect.json and agent_meta.json."""
import glob, json, os, re
ROOT = os.path.dirname(os.path.dirname(os.path.abspath(__file__)))
rows = []
for d in sorted(glob.glob(os.path.join(ROOT, "seeded", "C*-*"))):
    sid = os.path.basename(d)
    try:
        meta = json.load(open(os.path.join(d, "agent_meta.json")))
    except Exception:
        meta = {}
    det = {}
    if os.path.exists(os.path.join(d, "detect.json")):
        det = json.load(open(os.path.join(d, "detect.json")))
    summ = re.sub(r"\s+", " ", meta.get("summary", ""))[:150].replace("|", "/")
    by = det.get("detected_by", [])
    target = sid.split("-")[0]
    first = ""
    ck = det.get("checks", {})
    src = ck.get(target) or (ck.get(by[0]) if by else None)
    if src and src.get("failed_obligations"):
        first = src["failed_obligations"][0].split(" [")[0]
    rep = sum(v.get("replayed_on_real_code", 0) for v in ck.values())
    status = "caught by its own check" if target in by else ("caught by another check only" if by else ("ERROR " + det.get("error", "")[:60] if det.get("error") else "MISSED"))
    rows.append("| %s | %s | %s | %s | `%s` | %s |" % (sid, summ, ", ".join(by) or "-", status, first, "yes" if rep else "no"))
hdr = "| seed | change | checks that exit 1 | verdict | first failed obligation | replayed on real code |\n|---|---|---|---|---|---|\n"
n = len(rows)
own = sum(1 for r in rows if "caught by its own check" in r)
oth = sum(1 for r in rows if "another check only" in r)
txt = "%d seeded changes: %d caught by the check of the property they target, %d only by another property's check, %d missed.\n\n" % (n, own, oth, n - own - oth) + hdr + "\n".join(rows) + "\n"
open(os.path.join(ROOT, "seeded", "MATRIX.md"), "w").write(txt)
p = os.path.join(ROOT, "DESIGN.md")
s = open(p).read()
s = re.sub(r"<!-- MATRIX-BEGIN -->.*<!-- MATRIX-END -->", "<!-- MATRIX-BEGIN -->\n" + txt.replace("\\", "\\\\") + "<!-- MATRIX-END -->", s, flags=re.S)
open(p, "w").write(s)
print(txt.split("\n")[0])
