#!/usr/bin/env python3
"""mutsweep.py N [seed] [file-glob ...] : a mechanical mutation sweep, the must-fail selftest of the checks at scale.

N single-token mutants are drawn (seeded random) from the non-test, non-verif Go files of /repo (root module and the
plugins under contract). Each is applied to a scratch worktree outside /repo and /verif; mutants that do not build are
discarded; all claimed checks run against the rest (quick tier, evidence redirected). For every mutant no check
reacted to, the package's own tests are run: a mutant that the tests kill is of no interest here; one that survives
both is listed for triage (an equivalent mutant, a change no property speaks about, or a blind spot).
The result is written to /verif/mutants/sweep-<seed>.json; worktrees are removed."""
import concurrent.futures as cf
import glob
import json
import os
import random
import re
import shutil
import subprocess
import sys
import tempfile

ROOT = os.path.dirname(os.path.dirname(os.path.abspath(__file__)))
REPO = "/repo"

OPS = [
    (r" < ", " <= "), (r" <= ", " < "), (r" > ", " >= "), (r" >= ", " > "),
    (r" == ", " != "), (r" != ", " == "), (r" && ", " || "), (r" \|\| ", " && "),
    (r" \+ 1\b", " - 1"), (r" - 1\b", " + 1"), (r"\+\+$", "--"),
    (r"\btrue\b", "false"), (r"\bfalse\b", "true"),
    (r"\bNewObservableWithContext\(", "NewUnsafeObservableWithContext("),
    (r"\bNewSafeObservableWithContext\(", "NewUnsafeObservableWithContext("),
    (r"NextWithContext\(ctx, ", "NextWithContext(subscriberCtx, "),
    (r"CompleteWithContext\(ctx\)", "CompleteWithContext(subscriberCtx)"),
    (r"ErrorWithContext\(ctx, ", "ErrorWithContext(subscriberCtx, "),
    (r"SubscribeWithContext\(\s*subscriberCtx,", "SubscribeWithContext(context.Background(),"),
    (r"^(\s*)[A-Za-z_.]+\.Unsubscribe\(\)$", r"\1// removed"),
    (r"^(\s*)[A-Za-z_.]+\.Stop\(\)$", r"\1// removed"),
    (r"^(\s*)defer (\w+)\.Unlock\(\)$", r"\1\2.Unlock()"),
    (r"^(\s*)break$", r"\1continue"),
    (r"^(\s*)return$", r"\1// return removed"),
    (r"\[0\]", "[1]"), (r"\[1:\]", "[0:]"),
    (r"int64\(0\)", "int64(1)"),
]


def sh(cmd, **kw):
    return subprocess.run(cmd, capture_output=True, text=True, **kw)


def candidates(files):
    out = []
    for f in files:
        lines = open(os.path.join(REPO, f)).read().split("\n")
        depth_in_func = False
        for i, l in enumerate(lines):
            if l.startswith("func "):
                depth_in_func = True
            if l.startswith("}"):
                depth_in_func = False
            s = l.strip()
            if not depth_in_func or s.startswith("//") or not s or l.startswith("func "):
                continue
            code = l.split("//")[0]
            for k, (pat, rep) in enumerate(OPS):
                for m in re.finditer(pat, code):
                    out.append((f, i, k, m.start()))
    return out


def one(idx, mut, props):
    f, ln, k, col = mut
    pat, rep = OPS[k]
    wt = tempfile.mkdtemp(prefix="mswt-%d-" % idx)
    out = tempfile.mkdtemp(prefix="msout-%d-" % idx)
    rec = {"id": idx, "file": f, "line": ln + 1, "op": "%s -> %s" % (pat, rep)}
    try:
        os.rmdir(wt)
        r = sh(["git", "-C", REPO, "worktree", "add", "--detach", wt, "HEAD"])
        if r.returncode != 0:
            rec["status"] = "error"
            return rec
        p = os.path.join(wt, f)
        lines = open(p).read().split("\n")
        old = lines[ln]
        code = old
        m = re.compile(pat).search(code, col)
        if not m or m.start() != col:
            rec["status"] = "stale"
            return rec
        new = code[:m.start()] + m.expand(rep) + code[m.end():]
        lines[ln] = new
        rec["before"], rec["after"] = old.strip(), new.strip()
        open(p, "w").write("\n".join(lines))
        d = os.path.dirname(f) or "."
        r = sh(["go", "build", "."], cwd=os.path.join(wt, d), env=dict(os.environ, GOFLAGS=""))
        if r.returncode != 0:
            rec["status"] = "does-not-build"
            return rec
        env = dict(os.environ, VERIF_REPO=wt, VERIF_OUT=out, VERIF_TIER="quick")
        det, und = [], []

        def run(pid):
            r = sh([os.path.join(ROOT, "check"), pid], env=env)
            return pid, r.returncode, any(l.startswith("UNDECIDED") for l in r.stdout.splitlines()), [l.strip()[len("failed obligation: "):][:200] for l in r.stdout.splitlines() if l.strip().startswith("failed obligation:")][:2]

        fails = {}
        with cf.ThreadPoolExecutor(max_workers=4) as ex:
            for pid, rc, u, fl in ex.map(run, props):
                if rc == 1:
                    det.append(pid)
                    fails[pid] = fl
                if u:
                    und.append(pid)
        rec["detected_by"], rec["undecided_in"] = det, und
        if det:
            rec["status"] = "detected"
            rec["first_failure"] = next(iter(fails.values()))[:1]
            return rec
        # nobody reacted: do the package's own tests kill it?
        r = sh(["go", "test", "-vet=off", "-count=1", "-timeout", "240s", "."], cwd=os.path.join(wt, d), env=dict(os.environ, GOFLAGS=""))
        failing = [l for l in r.stdout.splitlines() if l.startswith("--- FAIL") and "ExampleFuture_ok" not in l]
        if r.returncode != 0 and (failing or "panic:" in r.stdout or "timed out" in r.stdout or "FAIL" in r.stdout and not r.stdout.count("--- FAIL: ExampleFuture_ok") == r.stdout.count("--- FAIL")):
            rec["status"] = "killed-by-tests"
            rec["tests"] = failing[:3]
        else:
            rec["status"] = "undecided-only" if und else "survived"
        return rec
    finally:
        sh(["git", "-C", REPO, "worktree", "remove", "--force", wt])
        shutil.rmtree(wt, ignore_errors=True)
        shutil.rmtree(out, ignore_errors=True)
        sh(["git", "-C", REPO, "worktree", "prune"])


def main():
    n = int(sys.argv[1])
    seed = int(sys.argv[2]) if len(sys.argv) > 2 else 1
    globs = sys.argv[3:] or ["*.go", "internal/*/*.go", "plugins/strings/*.go", "plugins/bytes/*.go", "plugins/stdio/*.go", "plugins/ratelimit/*/*.go", "plugins/time/*.go", "plugins/sort/*.go", "plugins/encoding/*/*.go", "ee/plugins/prometheus/*.go"]
    files = []
    for g in globs:
        for p in sorted(glob.glob(os.path.join(REPO, g))):
            b = os.path.basename(p)
            if b.endswith("_test.go") or b.startswith("verif_") or b.startswith("example") or b.endswith("_example.go"):
                continue
            files.append(os.path.relpath(p, REPO))
    cands = candidates(files)
    rnd = random.Random(seed)
    rnd.shuffle(cands)
    # at most two mutants per (file, line) and spread over operators
    seen, picked = {}, []
    for c in cands:
        key = (c[0], c[1])
        if seen.get(key, 0) >= 1:
            continue
        seen[key] = seen.get(key, 0) + 1
        picked.append(c)
        if len(picked) >= n:
            break
    cfg = json.load(open(os.path.join(ROOT, "checks.json")))
    props = sorted(p for p, v in cfg["properties"].items() if v.get("claimed", True))
    recs = []
    with cf.ThreadPoolExecutor(max_workers=3) as ex:
        for rec in ex.map(lambda t: one(t[0], t[1], props), enumerate(picked)):
            recs.append(rec)
            print("%3d %-16s %s:%d  %s  %s" % (rec["id"], rec.get("status"), rec["file"], rec["line"], rec.get("after", "")[:70], ",".join(rec.get("detected_by", []))), flush=True)
    os.makedirs(os.path.join(ROOT, "mutants"), exist_ok=True)
    summ = {}
    for r in recs:
        summ[r.get("status")] = summ.get(r.get("status"), 0) + 1
    json.dump({"seed": seed, "candidates": len(cands), "drawn": len(picked), "summary": summ, "mutants": recs}, open(os.path.join(ROOT, "mutants", "sweep-%d.json" % seed), "w"), indent=1)
    print(summ)


if __name__ == "__main__":
    main()
