#!/usr/bin/env python3
"""mkseedprompts.py <round> <template-round> : write /tmp/seedwork/prompt<round>-Cxx.txt for a new round of seeded changes from
the prompts of an earlier round: new worktree / output paths, new change numbers, and the list of functions already
taken rebuilt from /verif/seeded/*/agent_meta.json (only the summaries' first words: nothing about the checks)."""
import glob, json, os, re, sys
rnd, tmpl = sys.argv[1], sys.argv[2]
n1 = int(sys.argv[3]) if len(sys.argv) > 3 else 9
for i in range(1, 21):
    pid = "C%02d" % i
    src = "/tmp/seedwork/prompt%s-%s.txt" % (tmpl, pid)
    s = open(src).read()
    s = s.replace("/tmp/seedwork/w%s-" % tmpl, "/tmp/seedwork/w%s-" % rnd).replace("/tmp/seedwork/out%s" % tmpl, "/tmp/seedwork/out%s" % rnd)
    s = re.sub(r"number them \d+ and \d+", "number them %d and %d" % (n1, n1 + 1), s)
    taken = []
    for d in sorted(glob.glob("/verif/seeded/%s-*" % pid)):
        m = os.path.join(d, "agent_meta.json")
        if os.path.exists(m):
            try:
                t = json.load(open(m)).get("summary", "")
            except Exception:
                continue
            taken.append("  - " + t[:110].replace("\n", " "))
    a = s.index("ALREADY TAKEN")
    b = s.index("REQUIREMENTS ON THE CHANGE")
    s = s[:a] + "ALREADY TAKEN (choose DIFFERENT functions and mechanisms):\n" + "\n".join(taken) + "\n\n" + s[b:]
    open("/tmp/seedwork/prompt%s-%s.txt" % (rnd, pid), "w").write(s)
print("written")
